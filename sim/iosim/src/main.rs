//! Engine A (`iosim`): faulty storage and transport for the serialization layer.
mod algebra;
mod catalogue;
mod derived;
mod io;
mod more;
mod sem;
mod sim;

use catalogue::{catalogue, Entry};
use serde_json::{json, Map, Value};
use sim::Plan;
use simkit::driver::{Engine, EvidenceParts, RunOut, Stats, Violation};
use simkit::{mix, Rng};

#[global_allocator]
static ALLOC: simkit::alloc::Tracking = simkit::alloc::Tracking;

struct Io {
    cat: Vec<Entry>,
}

impl Io {
    fn pick(&self, prop: &str, rng: &mut Rng) -> &Entry {
        let total: u32 = self.cat.iter().filter(|e| e.props.contains(&prop)).map(|e| e.weight).sum();
        let mut r = rng.below(total as usize) as u32;
        for e in self.cat.iter().filter(|e| e.props.contains(&prop)) {
            if r < e.weight {
                return e;
            }
            r -= e.weight;
        }
        unreachable!()
    }
    fn find(&self, name: &str) -> Option<&Entry> {
        self.cat.iter().find(|e| e.name == name)
    }
    fn plan_for(&self, prop: &str, seed: u64, idx: u64, tier: &str) -> (Plan, &Entry) {
        let mut rng = Rng::new(mix(seed, 0xA, idx));
        let e = self.pick(prop, &mut rng);
        ((e.gen)(e.name, &e.hooks, prop, tier, &mut rng), e)
    }
    fn exec(&self, e: &Entry, plan: &Plan, prop: &str, stats: &mut Stats, want_desc: bool) -> RunOut {
        let x = (e.exec)(plan, &e.hooks, prop, stats);
        let desc = if want_desc || x.violation.is_some() {
            let p = x.failing_plan.as_ref().unwrap_or(plan);
            let mut j = p.to_json();
            j["values_shown"] = json!((e.show)(p));
            Some(j)
        } else {
            None
        };
        RunOut { digest: x.digest, nontrivial: x.nontrivial, evals: x.evals, violation: x.violation, desc }
    }
}

impl Engine for Io {
    fn name(&self) -> &'static str {
        "iosim"
    }
    fn props(&self) -> Vec<&'static str> {
        vec!["C09", "C10", "C18"]
    }
    fn total_runs(&self, _prop: &str, tier: &str) -> u64 {
        if tier == "thorough" {
            4_000_000
        } else {
            300_000
        }
    }
    fn run_seeded(&mut self, prop: &str, seed: u64, idx: u64, tier: &str, stats: &mut Stats, want_desc: bool) -> RunOut {
        let (plan, e) = self.plan_for(prop, seed, idx, tier);
        stats.bump(&format!("entry.{}", e.name));
        self.exec(e, &plan, prop, stats, want_desc)
    }
    fn describe(&mut self, prop: &str, seed: u64, idx: u64, tier: &str) -> Value {
        self.plan_for(prop, seed, idx, tier).0.to_json()
    }
    fn run_desc(&mut self, prop: &str, desc: &Value, stats: &mut Stats) -> RunOut {
        let plan = Plan::from_json(desc);
        match self.find(&plan.entry) {
            Some(e) => self.exec(e, &plan, prop, stats, true),
            None => RunOut {
                digest: 0,
                nontrivial: false,
                evals: 0,
                violation: Some(Violation {
                    prop: prop.into(),
                    invariant: "H.unknown_entry".into(),
                    sig: "H".into(),
                    detail: format!("no catalogue entry {}", plan.entry),
                }),
                desc: None,
            },
        }
    }
    fn shrink_candidates(&self, desc: &Value) -> Vec<Value> {
        sim::shrink_plan(&Plan::from_json(desc)).iter().map(|p| p.to_json()).collect()
    }
    fn evidence(&self, prop: &str, _tier: &str, stats: &Stats) -> EvidenceParts {
        let mut extras = Map::new();
        let entries: Vec<&str> = self.cat.iter().filter(|e| e.props.contains(&prop)).map(|e| e.name).collect();
        extras.insert("catalogue_entries".into(), json!(entries));
        let never: Vec<&str> = entries
            .iter()
            .filter(|n| !stats.counters.contains_key(&format!("entry.{}", n)))
            .copied()
            .collect();
        extras.insert("catalogue_entries_never_drawn".into(), json!(never));
        extras.insert(
            "components".into(),
            json!({
                "real": ["ark-serialize", "ark-serialize-derive", "ark-ff", "ark-ec", "ark-test-curves", "curve crates under /repo/curves (see catalogue)", "ark-std (std feature)"],
                "simulated": ["writer (SimWriter)", "reader (SimReader)", "storage medium and its faults", "allocator accounting (counting GlobalAlloc)"],
                "reference_models": ["wire-format model (num-bigint)", "Jacobian / projective-Edwards reference group law over the library's field arithmetic", "fault-free Vec<u8> encoding for schedule-independence"]
            }),
        );
        EvidenceParts {
            level: "fault_enumeration",
            rule: "Each evaluation is one stream session (1-4 records of one catalogue type, one compress/validate mode) pushed through the simulated writer, medium and reader under a seeded fault plan; 'sweep' sessions additionally enumerate every hard-write offset, every truncation length and every single-bit flip of one sampled record (counted in evaluations). A case is non-trivial if at least one fault actually fired (short transfer, EINTR, hard error, EOF, medium corruption, foreign record); distinct = distinct digests over (entry, class, modes, per-call I/O trace with requested/returned lengths, fired faults, result classes), values excluded.".into(),
            assumptions: vec![
                "field arithmetic of ark-ff (C01/C02), sqrt (C11) and num-bigint are the trusted base of the wire-format model and the reference group law".into(),
                "ark-std is used with its std feature: Read/Write are std::io's; the no_std re-implementation in ark-std is outside this repository and not exercised".into(),
                "values are regenerated from (value seed, generator) on replay; generators do not pass through the serializer under test".into(),
                "Vec<()>-like containers of zero-sized elements are excluded from corrupted-length runs (2^64 iterations reading no bytes is not judged)".into(),
            ],
            extras,
        }
    }
}

fn main() {
    let mut eng = Io { cat: catalogue() };
    simkit::driver::main_with(&mut eng)
}
