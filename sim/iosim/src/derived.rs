//! Harness structs that use `#[derive(CanonicalSerialize, CanonicalDeserialize)]`:
//! named fields, tuple fields, nested-tuple fields and generics.

use crate::sem::{Sem, G};
use crate::std_io;
use ark_serialize::{CanonicalDeserialize, CanonicalSerialize};
use ark_test_curves::bls12_381::{Fr, G1Affine, G1Projective};

#[derive(CanonicalSerialize, CanonicalDeserialize, Debug)]
pub struct Named {
    pub a: u64,
    pub b: (u32, (u16, Fr)),
    pub p: G1Affine,
    pub v: Vec<G1Affine>,
    pub o: Option<G1Projective>,
    pub s: String,
}

impl Sem for Named {
    fn gen(g: &mut G<'_>) -> Self {
        Named { a: Sem::gen(g), b: Sem::gen(g), p: Sem::gen(g), v: Sem::gen(g), o: Sem::gen(g), s: Sem::gen(g) }
    }
    fn same(&self, o: &Self) -> bool {
        self.a == o.a && self.b.same(&o.b) && self.p.same(&o.p) && self.v.same(&o.v) && self.o.same(&o.o) && self.s == o.s
    }
    fn ref_valid(&self, v: bool) -> bool {
        self.p.ref_valid(v) && self.v.ref_valid(v) && self.o.ref_valid(v)
    }
    std_io!();
}

#[derive(CanonicalSerialize, CanonicalDeserialize, Debug)]
pub struct Tup(pub u8, pub (u16, (bool, String)), pub G1Affine, pub [u32; 3]);

impl Sem for Tup {
    fn gen(g: &mut G<'_>) -> Self {
        Tup(Sem::gen(g), Sem::gen(g), Sem::gen(g), Sem::gen(g))
    }
    fn same(&self, o: &Self) -> bool {
        self.0 == o.0 && self.1.same(&o.1) && self.2.same(&o.2) && self.3 == o.3
    }
    fn ref_valid(&self, v: bool) -> bool {
        self.2.ref_valid(v)
    }
    std_io!();
}

#[derive(CanonicalSerialize, CanonicalDeserialize, Debug)]
pub struct Generic<T: CanonicalSerialize + CanonicalDeserialize, U: CanonicalSerialize + CanonicalDeserialize> {
    pub x: T,
    pub y: (U, (T, U)),
    pub z: Vec<U>,
}

impl<T, U> Sem for Generic<T, U>
where
    T: Sem + CanonicalSerialize + CanonicalDeserialize,
    U: Sem + CanonicalSerialize + CanonicalDeserialize,
{
    fn gen(g: &mut G<'_>) -> Self {
        Generic { x: Sem::gen(g), y: Sem::gen(g), z: Sem::gen(g) }
    }
    fn same(&self, o: &Self) -> bool {
        self.x.same(&o.x) && self.y.same(&o.y) && self.z.same(&o.z)
    }
    fn ref_valid(&self, v: bool) -> bool {
        self.x.ref_valid(v) && self.y.ref_valid(v) && self.z.ref_valid(v)
    }
    std_io!();
}

#[derive(CanonicalSerialize, CanonicalDeserialize, Debug)]
pub struct Empty {}

impl Sem for Empty {
    const ZST: bool = true;
    fn gen(_: &mut G<'_>) -> Self {
        Empty {}
    }
    fn same(&self, _: &Self) -> bool {
        true
    }
    std_io!();
}

/// a struct of structs, the inner ones validated through the derive-generated batch_check
#[derive(CanonicalSerialize, CanonicalDeserialize, Debug)]
pub struct Outer {
    pub items: Vec<Tup>,
    pub pair: (Named, u8),
}

impl Sem for Outer {
    fn gen(g: &mut G<'_>) -> Self {
        Outer { items: Sem::gen(g), pair: Sem::gen(g) }
    }
    fn same(&self, o: &Self) -> bool {
        self.items.same(&o.items) && self.pair.same(&o.pair)
    }
    fn ref_valid(&self, v: bool) -> bool {
        self.items.ref_valid(v) && self.pair.ref_valid(v)
    }
    std_io!();
}

/// const generic parameter, array and optional container fields
#[derive(CanonicalSerialize, CanonicalDeserialize, Debug)]
pub struct WithConst<const N: usize> {
    pub a: [u16; N],
    pub b: Option<Vec<u8>>,
    pub c: ([bool; N], u8),
}

impl<const N: usize> Sem for WithConst<N> {
    const CANONICAL: bool = true;
    fn gen(g: &mut G<'_>) -> Self {
        WithConst { a: Sem::gen(g), b: Sem::gen(g), c: Sem::gen(g) }
    }
    fn same(&self, o: &Self) -> bool {
        self.a == o.a && self.b == o.b && self.c == o.c
    }
    std_io!();
}

/// nested tuples three levels deep, a point at the innermost level
#[derive(CanonicalSerialize, CanonicalDeserialize, Debug)]
pub struct Deep(pub (u8, (u16, (G1Affine, u32))), pub ((bool,), String));

impl Sem for Deep {
    fn gen(g: &mut G<'_>) -> Self {
        Deep(Sem::gen(g), Sem::gen(g))
    }
    fn same(&self, o: &Self) -> bool {
        self.0.same(&o.0) && self.1.same(&o.1)
    }
    fn ref_valid(&self, v: bool) -> bool {
        self.0.ref_valid(v)
    }
    std_io!();
}

/// a tuple struct with a single field
#[derive(CanonicalSerialize, CanonicalDeserialize, Debug)]
pub struct Single(pub Vec<u32>);

impl Sem for Single {
    const CANONICAL: bool = true;
    fn gen(g: &mut G<'_>) -> Self {
        Single(Sem::gen(g))
    }
    fn same(&self, o: &Self) -> bool {
        self.0 == o.0
    }
    std_io!();
}

/// a unit struct
#[derive(CanonicalSerialize, CanonicalDeserialize, Debug)]
pub struct UnitS;

impl Sem for UnitS {
    const CANONICAL: bool = true;
    const ZST: bool = true;
    fn gen(_: &mut G<'_>) -> Self {
        UnitS
    }
    fn same(&self, _: &Self) -> bool {
        true
    }
    std_io!();
}
