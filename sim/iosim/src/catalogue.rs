//! The type catalogue: which types each property's check runs over.

use crate::algebra::Wire;
use crate::derived::*;
use crate::sem::*;
use crate::sim::{execute, gen_plan, show_values, Exec, Hooks, Plan};
use ark_serialize::{CompressedChecked, CompressedUnchecked, UncompressedChecked, UncompressedUnchecked};
use num_bigint::BigUint;
use simkit::driver::Stats;
use simkit::Rng;
use std::borrow::Cow;
use std::collections::{BTreeMap, BTreeSet, LinkedList, VecDeque};
use std::marker::PhantomData;
use std::sync::Arc;

pub struct Entry {
    pub name: &'static str,
    pub props: &'static [&'static str],
    pub weight: u32,
    pub hooks: Hooks,
    pub gen: fn(&str, &Hooks, &str, &str, &mut Rng) -> Plan,
    pub exec: fn(&Plan, &Hooks, &str, &mut Stats) -> Exec,
    pub show: fn(&Plan) -> Vec<String>,
}

const C18: &[&str] = &["C18"];
const C18_10: &[&str] = &["C18", "C10"];
const ALL3: &[&str] = &["C18", "C10", "C09"];
const F: &[&str] = &["C09", "C10"];

fn e<T: Sem>(name: &'static str, props: &'static [&'static str], weight: u32, budget: usize) -> Entry {
    Entry {
        name,
        props,
        weight,
        hooks: Hooks { model: None, foreign: None, zst_elems: false, budget, fixed_size: false, bulk: false },
        gen: gen_plan::<T>,
        exec: execute::<T>,
        show: show_values::<T>,
    }
}
fn ez<T: Sem>(name: &'static str, props: &'static [&'static str], weight: u32) -> Entry {
    let mut x = e::<T>(name, props, weight, 8);
    x.hooks.zst_elems = true;
    x
}
/// wire-modelled types whose encoded size varies with the value
fn wv<T: Wire>(name: &'static str, props: &'static [&'static str], weight: u32, budget: usize) -> Entry {
    let mut x = w::<T>(name, props, weight, budget);
    x.hooks.fixed_size = false;
    x
}
fn w<T: Wire>(name: &'static str, props: &'static [&'static str], weight: u32, budget: usize) -> Entry {
    Entry {
        name,
        props,
        weight,
        hooks: Hooks { model: Some(T::model), foreign: Some(T::foreign), zst_elems: false, budget, fixed_size: true, bulk: false },
        gen: gen_plan::<T>,
        exec: execute::<T>,
        show: show_values::<T>,
    }
}

mod t {
    pub use ark_test_curves::bls12_381 as bls;
    pub use ark_test_curves::bn384_small_two_adicity as bn384;
    pub use ark_test_curves::ed_on_bls12_381 as jub;
    pub use ark_test_curves::fp128;
    pub use ark_test_curves::mnt4_753 as mnt4;
    pub use ark_test_curves::mnt6_753 as mnt6;
    pub use ark_test_curves::secp256k1 as secp;
}

pub fn catalogue() -> Vec<Entry> {
    use t::*;
    type G1A = bls::G1Affine;
    type G1P = bls::G1Projective;
    type G2A = bls::G2Affine;
    type Fr = bls::Fr;
    let mut v = vec![
        // ---------------------------------------------------------- C18: containers
        e::<u8>("u8", C18, 2, 8),
        e::<u16>("u16", C18, 1, 8),
        e::<u32>("u32", C18, 1, 8),
        e::<u64>("u64", C18, 2, 8),
        e::<i8>("i8", C18, 1, 8),
        e::<i16>("i16", C18, 1, 8),
        e::<i32>("i32", C18, 1, 8),
        e::<i64>("i64", C18, 1, 8),
        e::<usize>("usize", C18, 1, 8),
        e::<isize>("isize", C18, 1, 8),
        w::<bool>("bool", C18, 2, 8),
        wv::<String>("String", C18, 4, 8),
        e::<BigUint>("BigUint", C18, 3, 8),
        e::<ark_ff::BigInt<4>>("BigInt<4>", C18, 2, 8),
        e::<ark_ff::BigInt<1>>("BigInt<1>", C18, 1, 8),
        e::<Option<u64>>("Option<u64>", C18, 2, 8),
        e::<Option<Vec<u16>>>("Option<Vec<u16>>", C18, 2, 8),
        wv::<Option<bool>>("Option<bool>", C18, 1, 8),
        e::<()>("()", C18, 1, 8),
        e::<(u8,)>("(u8,)", C18, 1, 8),
        e::<(u8, String)>("(u8,String)", C18, 2, 8),
        e::<(u16, bool, Vec<u8>)>("(u16,bool,Vec<u8>)", C18, 2, 8),
        e::<(u8, u16, u32, u64)>("(u8,u16,u32,u64)", C18, 1, 8),
        e::<(bool, String, Option<u8>, Vec<u32>, i64)>("(bool,String,Option<u8>,Vec<u32>,i64)", C18, 2, 8),
        e::<[u8; 0]>("[u8;0]", C18, 1, 8),
        e::<[u8; 1]>("[u8;1]", C18, 1, 8),
        e::<[u8; 32]>("[u8;32]", C18, 2, 8),
        e::<[u64; 4]>("[u64;4]", C18, 1, 8),
        e::<[bool; 3]>("[bool;3]", C18, 1, 8),
        e::<[String; 2]>("[String;2]", C18, 1, 8),
        e::<Vec<u8>>("Vec<u8>", C18, 6, 8),
        e::<Vec<u64>>("Vec<u64>", C18, 4, 8),
        wv::<Vec<bool>>("Vec<bool>", C18, 2, 8),
        e::<Vec<String>>("Vec<String>", C18, 3, 8),
        e::<Vec<Vec<u8>>>("Vec<Vec<u8>>", C18, 3, 8),
        e::<Vec<Option<u32>>>("Vec<Option<u32>>", C18, 2, 8),
        e::<Vec<(u8, u64)>>("Vec<(u8,u64)>", C18, 2, 8),
        ez::<Vec<()>>("Vec<()>", C18, 1),
        ez::<Vec<PhantomData<u8>>>("Vec<PhantomData<u8>>", C18, 1),
        e::<VecDeque<u8>>("VecDeque<u8>", C18, 3, 8),
        e::<VecDeque<u32>>("VecDeque<u32>", C18, 2, 8),
        e::<VecDeque<String>>("VecDeque<String>", C18, 2, 8),
        e::<LinkedList<u8>>("LinkedList<u8>", C18, 2, 8),
        e::<LinkedList<u64>>("LinkedList<u64>", C18, 2, 8),
        e::<LinkedList<Vec<u16>>>("LinkedList<Vec<u16>>", C18, 2, 8),
        e::<BTreeMap<u32, u64>>("BTreeMap<u32,u64>", C18, 3, 8),
        e::<BTreeMap<String, Vec<u8>>>("BTreeMap<String,Vec<u8>>", C18, 3, 8),
        e::<BTreeMap<u8, bool>>("BTreeMap<u8,bool>", C18, 2, 8),
        e::<BTreeSet<u32>>("BTreeSet<u32>", C18, 3, 8),
        e::<BTreeSet<String>>("BTreeSet<String>", C18, 2, 8),
        e::<BTreeSet<Vec<u8>>>("BTreeSet<Vec<u8>>", C18, 2, 8),
        e::<Arc<u64>>("Arc<u64>", C18, 1, 8),
        e::<Arc<Vec<u8>>>("Arc<Vec<u8>>", C18, 2, 8),
        e::<ViaRc<Vec<u16>>>("Rc<Vec<u16>>", C18, 2, 8),
        e::<ViaRc<String>>("Rc<String>", C18, 1, 8),
        e::<Cow<'static, Vec<u8>>>("Cow<Vec<u8>>", C18, 2, 8),
        e::<Cow<'static, String>>("Cow<String>", C18, 1, 8),
        e::<Vec<Cow<'static, u64>>>("Vec<Cow<u64>>", C18, 1, 8),
        e::<ViaRef<Vec<u32>>>("&Vec<u32>", C18, 1, 8),
        e::<ViaRef<(u8, String)>>("&(u8,String)", C18, 1, 8),
        e::<ViaMutRef<Vec<u8>>>("&mut Vec<u8>", C18, 1, 8),
        e::<ViaSlice<u8>>("&[u8]", C18, 2, 8),
        e::<ViaSlice<String>>("&[String]", C18, 1, 8),
        e::<CompressedChecked<Vec<u8>>>("CompressedChecked<Vec<u8>>", C18, 1, 8),
        e::<UncompressedUnchecked<(u8, String)>>("UncompressedUnchecked<(u8,String)>", C18, 1, 8),
        e::<Generic<u8, String>>("derive Generic<u8,String>", C18, 3, 8),
        e::<Generic<Vec<u16>, Option<bool>>>("derive Generic<Vec<u16>,Option<bool>>", C18, 2, 8),
        e::<Empty>("derive Empty", C18, 1, 8),
        // containers of algebraic values: the validated-as-a-batch path
        e::<Vec<Fr>>("Vec<Fr>", C18, 3, 8),
        e::<[Fr; 2]>("[Fr;2]", C18, 1, 8),
        e::<Option<Fr>>("Option<Fr>", C18, 1, 8),
        e::<BTreeMap<u8, Fr>>("BTreeMap<u8,Fr>", C18, 1, 8),
        e::<Vec<G1A>>("Vec<G1Affine>", C18_10, 4, 1),
        e::<Vec<G1P>>("Vec<G1Projective>", C18_10, 3, 1),
        e::<VecDeque<G1A>>("VecDeque<G1Affine>", C18_10, 2, 1),
        e::<LinkedList<G1A>>("LinkedList<G1Affine>", C18_10, 2, 1),
        e::<[G1A; 2]>("[G1Affine;2]", C18_10, 2, 1),
        e::<[G2A; 1]>("[G2Affine;1]", C18_10, 1, 1),
        e::<Option<G1A>>("Option<G1Affine>", C18_10, 2, 1),
        e::<(G1A, u8, G1P)>("(G1Affine,u8,G1Projective)", C18_10, 2, 1),
        e::<BTreeMap<u8, G1A>>("BTreeMap<u8,G1Affine>", C18_10, 2, 1),
        e::<Arc<G1A>>("Arc<G1Affine>", C18_10, 1, 1),
        e::<Vec<Arc<G1A>>>("Vec<Arc<G1Affine>>", C18_10, 1, 1),
        e::<Cow<'static, G1A>>("Cow<G1Affine>", C18_10, 1, 1),
        e::<Vec<Option<G1A>>>("Vec<Option<G1Affine>>", C18_10, 2, 1),
        e::<Vec<[G1A; 2]>>("Vec<[G1Affine;2]>", C18_10, 1, 1),
        e::<Vec<Vec<G1A>>>("Vec<Vec<G1Affine>>", C18_10, 1, 1),
        e::<Vec<jub::Affine>>("Vec<EdwardsAffine>", C18_10, 2, 1),
        e::<Vec<jub::Projective>>("Vec<EdwardsProjective>", C18_10, 2, 1),
        e::<[G1P; 2]>("[G1Projective;2]", C18_10, 1, 1),
        e::<Option<G1P>>("Option<G1Projective>", C18_10, 1, 1),
        e::<BTreeMap<u8, G1P>>("BTreeMap<u8,G1Projective>", C18_10, 1, 1),
        e::<BTreeSet<u16>>("BTreeSet<u16>", C18, 1, 8),
        e::<(Vec<G2A>, Option<jub::Affine>)>("(Vec<G2Affine>,Option<EdwardsAffine>)", C18_10, 1, 1),
        // containers inside batch-validated containers (each level has its own batch_check)
        e::<Vec<BTreeMap<u8, G1A>>>("Vec<BTreeMap<u8,G1Affine>>", C18_10, 2, 1),
        e::<[BTreeMap<u8, G1A>; 2]>("[BTreeMap<u8,G1Affine>;2]", C18_10, 1, 1),
        e::<Vec<(u8, G1A)>>("Vec<(u8,G1Affine)>", C18_10, 2, 1),
        e::<Vec<Cow<'static, G1A>>>("Vec<Cow<G1Affine>>", C18_10, 1, 1),
        e::<LinkedList<Option<G1A>>>("LinkedList<Option<G1Affine>>", C18_10, 1, 1),
        e::<VecDeque<[G1A; 2]>>("VecDeque<[G1Affine;2]>", C18_10, 1, 1),
        e::<Vec<Vec<Option<G1A>>>>("Vec<Vec<Option<G1Affine>>>", C18_10, 1, 1),
        e::<[Vec<G1A>; 2]>("[Vec<G1Affine>;2]", C18_10, 1, 1),
        e::<Vec<Generic<G1A, Fr>>>("Vec<derive Generic<G1Affine,Fr>>", C18_10, 1, 1),
        e::<Vec<Deep>>("Vec<derive Deep>", C18_10, 1, 1),
        e::<Vec<Named>>("Vec<derive Named>", C18_10, 1, 1),
        e::<BTreeMap<u8, Vec<G1A>>>("BTreeMap<u8,Vec<G1Affine>>", C18_10, 1, 1),
        e::<Vec<BTreeMap<u8, Option<jub::Affine>>>>("Vec<BTreeMap<u8,Option<EdwardsAffine>>>", C18_10, 1, 1),
        e::<Vec<ark_ec::pairing::PairingOutput<bls::Bls12_381>>>("Vec<PairingOutput<Bls12_381>>", C18_10, 1, 1),
        e::<[ark_ec::pairing::PairingOutput<bls::Bls12_381>; 2]>("[PairingOutput<Bls12_381>;2]", C18_10, 1, 1),
        e::<Option<Option<u8>>>("Option<Option<u8>>", C18, 1, 8),
        e::<Option<(bool, Option<String>)>>("Option<(bool,Option<String>)>", C18, 1, 8),
        e::<PhantomData<u64>>("PhantomData<u64>", C18, 1, 8),
        e::<(u8, PhantomData<u16>, u8)>("(u8,PhantomData<u16>,u8)", C18, 1, 8),
        e::<UnitS>("derive UnitS", C18, 1, 8),
        e::<(UnitS, u16, Empty)>("(UnitS,u16,Empty)", C18, 1, 8),
        e::<BTreeMap<u16, BTreeSet<u8>>>("BTreeMap<u16,BTreeSet<u8>>", C18, 1, 8),
        e::<LinkedList<(u8, String)>>("LinkedList<(u8,String)>", C18, 1, 8),
        e::<(i8, i16, i32, i64, isize)>("(i8,i16,i32,i64,isize)", C18, 1, 8),
        e::<ViaMacro1<G1A>>("serialize_to_vec![G1Affine]", C18, 1, 1),
        e::<ViaMacro2<u16, G1A>>("serialize_to_vec![u16, G1Affine]", C18, 1, 1),
        e::<ViaMacro2<G1A, Vec<G1A>>>("serialize_to_vec![G1Affine, Vec<G1Affine>]", C18, 1, 1),
        e::<ViaMacro2<String, Vec<u8>>>("serialize_to_vec![String, Vec<u8>]", C18, 1, 8),
        e::<WithConst<3>>("derive WithConst<3>", C18, 2, 8),
        e::<Deep>("derive Deep", C18_10, 2, 1),
        e::<Single>("derive Single", C18, 1, 8),
        e::<CompressedChecked<G1A>>("CompressedChecked<G1Affine>", ALL3, 2, 1),
        e::<UncompressedChecked<G1A>>("UncompressedChecked<G1Affine>", ALL3, 2, 1),
        e::<CompressedUnchecked<G1A>>("CompressedUnchecked<G1Affine>", ALL3, 2, 1),
        e::<UncompressedUnchecked<G1A>>("UncompressedUnchecked<G1Affine>", ALL3, 2, 1),
        e::<Vec<CompressedChecked<G1A>>>("Vec<CompressedChecked<G1Affine>>", C18_10, 1, 1),
        e::<Named>("derive Named", C18_10, 4, 1),
        e::<Tup>("derive Tup", C18_10, 3, 1),
        e::<Outer>("derive Outer", C18_10, 2, 1),
        e::<Generic<G1A, Fr>>("derive Generic<G1Affine,Fr>", C18_10, 2, 1),
        // ---------------------------------------------------------- C09 / C10: fields
        w::<fp128::Fq>("fp128::Fq (127 bit)", F, 3, 8),
        w::<bls::Fr>("bls12_381::Fr (255 bit)", F, 3, 8),
        w::<bls::Fq>("bls12_381::Fq (381 bit)", F, 3, 8),
        w::<secp::Fq>("secp256k1::Fq (256 bit)", F, 3, 8),
        w::<secp::Fr>("secp256k1::Fr (256 bit)", F, 2, 8),
        w::<bn384::Fq>("bn384::Fq", F, 2, 8),
        w::<bn384::Fr>("bn384::Fr", F, 2, 8),
        w::<mnt4::Fq>("mnt4_753::Fq (753 bit)", F, 2, 8),
        w::<mnt4::Fr>("mnt4_753::Fr (753 bit)", F, 1, 8),
        w::<jub::Fr>("ed_on_bls12_381::Fr", F, 2, 8),
        w::<bls::Fq2>("bls12_381::Fq2", F, 3, 8),
        w::<bls::Fq6>("bls12_381::Fq6", F, 2, 8),
        w::<bls::Fq12>("bls12_381::Fq12", F, 2, 8),
        w::<mnt6::Fq3>("mnt6_753::Fq3", F, 2, 8),
        w::<ark_bn254::Fq>("bn254::Fq (254 bit)", F, 2, 8),
        w::<ark_bn254::Fq2>("bn254::Fq2", F, 1, 8),
        // ---------------------------------------------------------- C09 / C10: points
        w::<bls::G1Affine>("bls12_381::G1Affine", F, 4, 1),
        w::<bls::G1Projective>("bls12_381::G1Projective", F, 3, 1),
        w::<bls::G2Affine>("bls12_381::G2Affine", F, 3, 1),
        w::<bls::G2Projective>("bls12_381::G2Projective", F, 2, 1),
        w::<secp::G1Affine>("secp256k1::G1Affine", F, 3, 1),
        w::<secp::G1Projective>("secp256k1::G1Projective", F, 2, 1),
        w::<bn384::G1Affine>("bn384::G1Affine", F, 2, 1),
        w::<bn384::G1Projective>("bn384::G1Projective", F, 1, 1),
        w::<mnt4::G1Affine>("mnt4_753::G1Affine", F, 1, 1),
        w::<mnt4::G1Projective>("mnt4_753::G1Projective", F, 1, 1),
        w::<jub::Affine>("ed_on_bls12_381::EdwardsAffine", F, 4, 1),
        w::<jub::Projective>("ed_on_bls12_381::EdwardsProjective", F, 3, 1),
        w::<ark_bn254::G1Affine>("bn254::G1Affine", F, 2, 1),
        w::<ark_bn254::G2Affine>("bn254::G2Affine", F, 2, 1),
        w::<ark_bn254::G2Projective>("bn254::G2Projective", F, 1, 1),
        w::<ark_ec::pairing::PairingOutput<bls::Bls12_381>>("PairingOutput<Bls12_381>", F, 1, 1),
    ];
    v.extend(crate::more::more());
    v.extend(crate::more::flags_entries());
    v.extend(crate::more::extra_entries());
    const BULK: &[&str] = &[
        "Vec<u8>", "Vec<u64>", "Vec<bool>", "String", "VecDeque<u8>", "VecDeque<u32>", "&[u8]", "Cow<Vec<u8>>", "Arc<Vec<u8>>", "Vec<(u8,u64)>",
        "(u8,String)", "Cow<String>", "Rc<String>", "BigUint", "poly DensePolynomial<Fr>", "Vec<Fr>", "CompressedChecked<Vec<u8>>", "derive Single",
    ];
    for e in v.iter_mut() {
        if BULK.contains(&e.name) {
            e.hooks.bulk = true;
        }
    }
    // entries over very large fields / cubic-extension G2 cost tens of milliseconds per
    // subgroup decision: they keep weight 1 while everything else is scaled up
    const HEAVY: &[&str] = &[
        "cp6_782", "mnt6_753", "curves mnt4_753", "mnt4_753::G", "bw6_767", "bw6_761::G", "ed_on_mnt4_753", "ed_on_cp6_782",
        "ed_on_bw6_761", "PairingOutput<MNT4_298>", "mnt6_298::G2", "mnt4_298::G2", "PairingOutput<Bn254>", "PairingOutput<Bls12_381>",
    ];
    for e in v.iter_mut() {
        if e.name.starts_with("Vec<PairingOutput") || e.name.starts_with("[PairingOutput") {
            // aggregate validity checks over target-group elements: worth their cost
            e.weight = 18;
            e.hooks.budget = 1;
            continue;
        }
        if e.name.starts_with("PairingOutput<") {
            // single target-group elements: one value per run, but every pairing in the catalogue
            // deserves more than the weight of a heavy curve point
            e.weight = 4;
            e.hooks.budget = 0;
            continue;
        }
        if HEAVY.iter().any(|h| e.name.contains(h)) {
            e.weight = 1;
            // (containers keep a small element budget; budget 0 marks a single heavy value)
            e.hooks.budget = if e.name.starts_with("Vec<") || e.name.starts_with('[') { 1 } else { 0 };
        } else {
            e.weight *= 6;
        }
    }
    v
}
