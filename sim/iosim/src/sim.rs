//! Stream sessions: plan generation, execution through the simulated
//! writer / medium / reader, and the oracles W1, W2, R1, R2, R3.

use crate::algebra::Model;
use crate::io::*;
use crate::sem::{Sem, G};
use ark_serialize::{Compress, SerializationError, Validate};
use serde_json::{json, Value};
use simkit::driver::{loc_class, msg_class, take_panic, Stats, Violation};
use simkit::{alloc, Digest, Rng};
use std::panic::{catch_unwind, AssertUnwindSafe};

#[derive(Clone, Copy, Debug, PartialEq, Eq)]
pub enum Class {
    Benign,
    WriteFault,
    ReadFault,
    Corrupt,
    Foreign,
    Sweep,
}

impl Class {
    pub fn name(&self) -> &'static str {
        match self {
            Class::Benign => "benign",
            Class::WriteFault => "write_fault",
            Class::ReadFault => "read_fault",
            Class::Corrupt => "corrupt",
            Class::Foreign => "foreign",
            Class::Sweep => "sweep",
        }
    }
    pub fn from_name(s: &str) -> Class {
        match s {
            "write_fault" => Class::WriteFault,
            "read_fault" => Class::ReadFault,
            "corrupt" => Class::Corrupt,
            "foreign" => Class::Foreign,
            "sweep" => Class::Sweep,
            _ => Class::Benign,
        }
    }
}

#[derive(Clone, Debug)]
pub struct ValSpec {
    pub seed: u64,
    pub simple: bool,
    pub budget: usize,
    /// a sequence just around the deserializers' 1 MiB reservation cap
    pub huge: bool,
}

#[derive(Clone, Debug)]
pub struct Plan {
    pub entry: String,
    pub class: Class,
    pub compress: bool,
    pub validate: bool,
    /// go through the convenience entry points (serialize_compressed, …)
    pub conv: bool,
    pub invalid_ok: bool,
    pub values: Vec<ValSpec>,
    pub wplan: IoPlan,
    pub rplan: IoPlan,
    pub mops: Vec<MOp>,
    pub trailer: usize,
    pub foreign_seed: u64,
    /// human-readable rendering of the generated values (informational only)
    pub shown: Vec<String>,
}

fn s64(v: &Value) -> u64 {
    v.as_str().and_then(|s| s.parse().ok()).or_else(|| v.as_u64()).unwrap_or(0)
}

impl Plan {
    pub fn to_json(&self) -> Value {
        json!({
            "entry": self.entry, "class": self.class.name(),
            "compress": self.compress, "validate": self.validate, "conv": self.conv,
            "invalid_ok": self.invalid_ok,
            "values": self.values.iter().map(|v| json!({"seed": v.seed.to_string(), "simple": v.simple, "budget": v.budget, "huge": v.huge})).collect::<Vec<_>>(),
            "values_shown": self.shown,
            "wplan": self.wplan.to_json(), "rplan": self.rplan.to_json(),
            "mops": self.mops.iter().map(|m| m.to_json()).collect::<Vec<_>>(),
            "trailer": self.trailer, "foreign_seed": self.foreign_seed.to_string(),
        })
    }
    pub fn from_json(v: &Value) -> Plan {
        Plan {
            entry: v["entry"].as_str().unwrap_or("").to_string(),
            class: Class::from_name(v["class"].as_str().unwrap_or("")),
            compress: v["compress"].as_bool().unwrap_or(false),
            validate: v["validate"].as_bool().unwrap_or(false),
            conv: v["conv"].as_bool().unwrap_or(false),
            invalid_ok: v["invalid_ok"].as_bool().unwrap_or(false),
            values: v["values"]
                .as_array()
                .map(|a| {
                    a.iter()
                        .map(|x| ValSpec {
                            seed: s64(&x["seed"]),
                            simple: x["simple"].as_bool().unwrap_or(false),
                            budget: x["budget"].as_u64().unwrap_or(0) as usize,
                            huge: x["huge"].as_bool().unwrap_or(false),
                        })
                        .collect()
                })
                .unwrap_or_default(),
            wplan: IoPlan::from_json(&v["wplan"]),
            rplan: IoPlan::from_json(&v["rplan"]),
            mops: v["mops"].as_array().map(|a| a.iter().filter_map(MOp::from_json).collect()).unwrap_or_default(),
            trailer: v["trailer"].as_u64().unwrap_or(0) as usize,
            foreign_seed: s64(&v["foreign_seed"]),
            shown: vec![],
        }
    }
}

pub type ModelFn = fn(&[u8], Compress) -> Model;
pub type ForeignFn = fn(&mut G<'_>, Compress) -> Option<(Vec<u8>, &'static str)>;

#[derive(Clone, Copy)]
pub struct Hooks {
    pub model: Option<ModelFn>,
    pub foreign: Option<ForeignFn>,
    /// contains zero-sized element types: skip corrupted-length runs
    pub zst_elems: bool,
    /// weight multiplier for the element budget (expensive element types get small containers)
    pub budget: usize,
    /// every value of the type has the same encoded size (fields, points): the reader must
    /// never be asked for a byte beyond it, whatever the bytes are
    pub fixed_size: bool,
    /// cheap elements: occasionally generate a sequence around the 1 MiB reservation cap
    pub bulk: bool,
}

pub struct Exec {
    pub digest: u64,
    pub nontrivial: bool,
    pub evals: u64,
    pub violation: Option<Violation>,
    /// when a sweep finds a violation: the explicit sub-plan that failed
    pub failing_plan: Option<Plan>,
}

fn cmode(c: bool) -> Compress {
    if c {
        Compress::Yes
    } else {
        Compress::No
    }
}
fn vmode(v: bool) -> Validate {
    if v {
        Validate::Yes
    } else {
        Validate::No
    }
}

fn gen_value<T: Sem>(vs: &ValSpec, invalid_ok: bool) -> T {
    let mut rng = Rng::new(vs.seed);
    let mut g = G { rng: &mut rng, simple: vs.simple, budget: vs.budget, invalid_ok, huge: vs.huge && !vs.simple };
    T::gen(&mut g)
}

pub fn show_values<T: Sem>(plan: &Plan) -> Vec<String> {
    if plan.class == Class::Foreign {
        return vec![];
    }
    plan.values
        .iter()
        .map(|vs| {
            catch_unwind(AssertUnwindSafe(|| gen_value::<T>(vs, plan.invalid_ok).show())).unwrap_or_else(|_| {
                let _ = take_panic();
                "<generator panicked>".into()
            })
        })
        .collect()
}

/// Offsets worth hitting inside a stream made of records with the given sizes.
fn biased_offset(rng: &mut Rng, sizes: &[usize]) -> usize {
    let total: usize = sizes.iter().sum();
    if total == 0 {
        return 0;
    }
    let rec = rng.below(sizes.len());
    let start: usize = sizes[..rec].iter().sum();
    let sz = sizes[rec];
    if sz == 0 {
        return rng.below(total);
    }
    let off = match rng.below(10) {
        0 => 0,
        1 => sz - 1,
        2 => (8 * rng.below(sz / 8 + 1)).min(sz - 1),
        3 => (8 * rng.below(sz / 8 + 1) + 7).min(sz - 1),
        4 => rng.below(sz.min(8)),
        5 => sz - 1 - rng.below(sz.min(9)),
        _ => rng.below(sz),
    };
    start + off
}

const BLOWUPS: [u64; 10] = [
    u64::MAX,
    1 << 63,
    (1 << 63) - 1,
    1 << 62,
    1 << 56,
    1 << 48,
    1 << 40,
    1 << 32,
    (1 << 32) - 1,
    1 << 24,
];

pub fn gen_plan<T: Sem>(entry: &str, hooks: &Hooks, prop: &str, tier: &str, rng: &mut Rng) -> Plan {
    let sweep_den = if tier == "thorough" { 150 } else { 1500 };
    let class = if rng.below(sweep_den) == 0 {
        Class::Sweep
    } else {
        // C10 is about what arrives from outside: weight corrupt/foreign higher there
        let w: [u32; 5] = match prop {
            "C10" => [15, 5, 20, 35, 25],
            "C09" => [35, 15, 15, 20, 15],
            _ => [30, 15, 20, 30, 5],
        };
        let mut r = rng.below(100) as u32;
        let mut k = 0;
        while k < 4 && r >= w[k] {
            r -= w[k];
            k += 1;
        }
        let c = [Class::Benign, Class::WriteFault, Class::ReadFault, Class::Corrupt, Class::Foreign][k];
        let c = if c == Class::Foreign && hooks.foreign.is_none() { Class::Corrupt } else { c };
        // containers of zero-sized elements: a corrupted length means up to 2^64
        // iterations that read nothing; not judged (see DESIGN), so not generated
        if c == Class::Corrupt && hooks.zst_elems {
            Class::Benign
        } else {
            c
        }
    };
    let compress = rng.chance(1, 2);
    let validate = rng.chance(1, 2);
    let conv = rng.chance(1, 4);
    // values that serialize but are not valid elements (points of the curve outside the
    // subgroup): under Validate::No they must round-trip (C09), under Validate::Yes be rejected (C10)
    let invalid_ok = matches!(class, Class::Benign | Class::Corrupt)
        && match prop {
            "C10" => rng.chance(1, 2),
            "C09" => rng.chance(1, 4),
            _ => false,
        };
    let nrec = match class {
        Class::Foreign | Class::Sweep => 1,
        _ => *rng.pick(&[1usize, 1, 1, 2, 2, 3, 4]),
    };
    let big = rng.chance(1, 60) && class != Class::Sweep;
    let mut values = vec![];
    for _ in 0..nrec {
        let base = if class == Class::Sweep {
            6
        } else if big {
            1200
        } else {
            *rng.pick(&[0usize, 2, 8, 8, 24, 60])
        };
        values.push(ValSpec { seed: rng.fork(), simple: false, budget: base * hooks.budget / 8, huge: false });
    }
    let mut plan = Plan {
        entry: entry.to_string(),
        class,
        compress,
        validate,
        conv,
        invalid_ok,
        values,
        wplan: IoPlan::default(),
        rplan: IoPlan::default(),
        mops: vec![],
        trailer: 0,
        foreign_seed: rng.fork(),
        shown: vec![],
    };
    if hooks.bulk && matches!(class, Class::Benign | Class::ReadFault) && rng.below(if tier == "thorough" { 40 } else { 120 }) == 0 {
        // one record just around the reservation cap, moved in large pieces
        plan.values.truncate(1);
        plan.values[0].huge = true;
        plan.class = Class::Benign;
        plan.invalid_ok = false;
        plan.wplan = IoPlan { calls: vec![Beh::Short(65536), Beh::Full, Beh::Short(4096)], hard: None };
        plan.rplan = IoPlan { calls: vec![Beh::Short(40000), Beh::Full], hard: None };
        plan.trailer = rng.below(9);
        return plan;
    }
    if class == Class::Sweep || class == Class::Foreign {
        if class == Class::Foreign {
            plan.rplan = IoPlan::gen_benign(rng);
            plan.trailer = rng.below(12);
        }
        return plan;
    }
    // sizes of the records (from the library's own size function; the plan only
    // uses them to aim faults, the oracles re-check them independently)
    let c = cmode(compress);
    let sizes: Vec<usize> = plan
        .values
        .iter()
        .map(|vs| {
            catch_unwind(AssertUnwindSafe(|| gen_value::<T>(vs, invalid_ok).size(c))).unwrap_or(0)
        })
        .collect();
    let total: usize = sizes.iter().sum();
    plan.wplan = IoPlan::gen_benign(rng);
    plan.rplan = IoPlan::gen_benign(rng);
    match class {
        Class::Benign => {
            plan.trailer = rng.below(16);
        },
        Class::WriteFault => {
            let t = biased_offset(rng, &sizes);
            let k = *rng.pick(&[HardKind::Zero, HardKind::Eio, HardKind::Enospc, HardKind::WouldBlock]);
            plan.wplan.hard = Some((t, k));
        },
        Class::ReadFault => {
            let t = biased_offset(rng, &sizes);
            if rng.chance(1, 3) {
                plan.mops.push(MOp::Truncate(t));
            } else {
                let k = *rng.pick(&[HardKind::Zero, HardKind::Zero, HardKind::Eio, HardKind::WouldBlock]);
                plan.rplan.hard = Some((t, k));
            }
        },
        Class::Corrupt => {
            plan.trailer = rng.below(16);
            let nops = *rng.pick(&[1usize, 1, 1, 2, 2, 3]);
            for _ in 0..nops {
                let pos = biased_offset(rng, &sizes);
                let op = match rng.below(16) {
                    0 | 1 | 2 => MOp::BitFlip(pos, rng.below(8) as u8),
                    3 => MOp::BitFlip(pos, 7 - rng.below(3) as u8),
                    4 => MOp::ByteSet(pos, *rng.pick(&[0u8, 1, 2, 0x7f, 0x80, 0xc0, 0x40, 0xff])),
                    5 => MOp::ZeroRange(pos, pos + rng.range(1, 16)),
                    6 => MOp::FfRange(pos, pos + rng.range(1, 16)),
                    7 => MOp::GarbageRange(pos, pos + rng.range(1, 64), rng.fork()),
                    8 => MOp::Torn(pos.min(sizes[0]), rng.fork()),
                    9 => MOp::DupChunk(rng.below(64)),
                    10 => MOp::SwapChunks(rng.below(64), rng.below(64)),
                    11 => MOp::DropChunk(rng.below(64)),
                    12 => MOp::Truncate(pos),
                    13 => MOp::AppendGarbage(rng.range(1, 40), rng.fork()),
                    _ => {
                        // length-prefix blow-up: a little-endian u64 written at the start
                        // of a record (where containers keep their length) or at an
                        // 8-aligned offset
                        if hooks.zst_elems {
                            MOp::BitFlip(pos, rng.below(8) as u8)
                        } else {
                            let at = if rng.chance(2, 3) {
                                let r = rng.below(sizes.len());
                                sizes[..r].iter().sum()
                            } else {
                                pos & !7
                            };
                            let val = if rng.chance(1, 3) {
                                (total as u64).wrapping_add(rng.below(3) as u64)
                            } else {
                                *rng.pick(&BLOWUPS) | (rng.below(2) as u64)
                            };
                            MOp::SetU64(at, val)
                        }
                    },
                };
                plan.mops.push(op);
            }
        },
        _ => {},
    }
    plan
}

fn viol(prop: &str, entry: &str, inv: &str, extra: &str, detail: String) -> Violation {
    let sig = if extra.is_empty() {
        format!("io|{}|{}", entry, inv)
    } else {
        format!("io|{}|{}|{}", entry, inv, extra)
    };
    Violation { prop: prop.to_string(), invariant: inv.to_string(), sig, detail }
}

fn panic_extra() -> (String, String) {
    let (loc, msg) = take_panic();
    (format!("{} {}", loc_class(&loc), msg_class(&msg)), format!("panic at {}: {}", loc, msg))
}

fn errname(e: &SerializationError) -> String {
    match e {
        SerializationError::IoError(e) => format!("IoError({:?})", e.kind()),
        SerializationError::InvalidData => "InvalidData".into(),
        SerializationError::NotEnoughSpace => "NotEnoughSpace".into(),
        SerializationError::UnexpectedFlags => "UnexpectedFlags".into(),
    }
}

fn hex(b: &[u8]) -> String {
    let mut s = String::new();
    for x in b.iter().take(96) {
        s.push_str(&format!("{:02x}", x));
    }
    if b.len() > 96 {
        s.push_str(&format!("…(+{} bytes)", b.len() - 96));
    }
    s
}

fn count_io(stats: &mut Stats, side: &str, c: &IoCounts) {
    if c.short > 0 {
        stats.add(&format!("fault.{}.short", side), c.short);
    }
    if c.eintr > 0 {
        stats.add(&format!("fault.{}.eintr", side), c.eintr);
    }
}

pub fn execute<T: Sem>(plan: &Plan, hooks: &Hooks, prop: &str, stats: &mut Stats) -> Exec {
    if plan.class == Class::Sweep {
        return execute_sweep::<T>(plan, hooks, prop, stats);
    }
    let mut dg = Digest::default();
    dg.add_str(&plan.entry);
    dg.add_str(plan.class.name());
    dg.add((plan.compress as u64) | (plan.validate as u64) << 1 | (plan.conv as u64) << 2);
    let mut fired = 0u64;
    let r = execute_inner::<T>(plan, hooks, prop, stats, &mut dg, &mut fired);
    stats.bump(&format!("class.{}", plan.class.name()));
    Exec { digest: dg.finish(), nontrivial: fired > 0, evals: 1, violation: r.err(), failing_plan: None }
}

#[allow(clippy::too_many_lines)]
fn execute_inner<T: Sem>(
    plan: &Plan,
    hooks: &Hooks,
    prop: &str,
    stats: &mut Stats,
    dg: &mut Digest,
    fired: &mut u64,
) -> Result<(), Violation> {
    let entry = plan.entry.as_str();
    let c = cmode(plan.compress);
    let v = vmode(plan.validate);
    macro_rules! fail {
        ($inv:expr, $extra:expr, $($fmt:tt)*) => {
            return Err(viol(prop, entry, $inv, $extra, format!($($fmt)*)))
        };
    }

    // ---------------------------------------------------------------- foreign records
    if plan.class == Class::Foreign {
        let Some(ff) = hooks.foreign else { return Ok(()) };
        let mut rng = Rng::new(plan.foreign_seed);
        let mut g = G { rng: &mut rng, simple: false, budget: 4, invalid_ok: true, huge: false };
        let made = catch_unwind(AssertUnwindSafe(|| ff(&mut g, c)));
        let Ok(made) = made else {
            let (x, d) = panic_extra();
            fail!("H.foreign_gen_panic", &x, "{}", d);
        };
        let Some((mut medium, what)) = made else {
            stats.bump("foreign.not_expressible");
            return Ok(());
        };
        *fired += 1;
        stats.bump(&format!("fault.foreign_record.{}", what));
        dg.add_str(what);
        medium.extend(std::iter::repeat(0xA5u8).take(plan.trailer));
        return read_untrusted::<T>(plan, hooks, prop, stats, dg, &medium, 1, c, v);
    }

    // ---------------------------------------------------------------- values and reference encodings
    let n = plan.values.len();
    let mut vals: Vec<T> = Vec::with_capacity(n);
    for vs in &plan.values {
        match catch_unwind(AssertUnwindSafe(|| gen_value::<T>(vs, plan.invalid_ok))) {
            Ok(x) => vals.push(x),
            Err(_) => {
                let (x, d) = panic_extra();
                fail!("H.value_gen_panic", &x, "{}", d);
            },
        }
    }
    if plan.values.iter().any(|v| v.huge) {
        stats.bump("probe.sequence_around_reservation_cap");
    }
    let mut refs: Vec<Vec<u8>> = Vec::with_capacity(n);
    let mut sizes: Vec<usize> = Vec::with_capacity(n);
    for (i, val) in vals.iter().enumerate() {
        let r = catch_unwind(AssertUnwindSafe(|| {
            let s = val.size(c);
            let s2 = val.size_conv(c);
            let mut b = Vec::new();
            let r = val.ser(&mut b, c);
            (s, s2, b, r)
        }));
        let Ok((s, s2, b, r)) = r else {
            let (x, d) = panic_extra();
            fail!("W1.panic", &x, "serializing record {} ({}) into a Vec: {}", i, val.show(), d);
        };
        if let Err(e) = r {
            fail!("W1.spurious_error", "", "fault-free serialization of {} failed: {}", val.show(), errname(&e));
        }
        if s != b.len() || s2 != s {
            fail!(
                "W1.size_mismatch",
                "",
                "value {}: serialized_size={} compressed/uncompressed_size={} bytes written={}",
                val.show(),
                s,
                s2,
                b.len()
            );
        }
        sizes.push(s);
        refs.push(b);
    }
    let all_ref: Vec<u8> = refs.concat();
    let mut offsets = vec![0usize; n + 1];
    for i in 0..n {
        offsets[i + 1] = offsets[i] + sizes[i];
    }

    // ---------------------------------------------------------------- write phase
    let mut w = SimWriter::new(&plan.wplan);
    let mut write_failed = false;
    for (i, val) in vals.iter().enumerate() {
        let before = w.accepted();
        let r = catch_unwind(AssertUnwindSafe(|| if plan.conv { val.ser_conv(&mut w, c) } else { val.ser(&mut w, c) }));
        let Ok(r) = r else {
            let (x, d) = panic_extra();
            fail!("W.panic", &x, "record {} ({}): {}", i, val.show(), d);
        };
        if let Some(kind) = w.hard_fired {
            *fired += 1;
            stats.bump(&format!("fault.write.hard.{}", kind.name()));
            if r.is_ok() {
                fail!(
                    "W2.swallowed_error",
                    "",
                    "writer failed ({}) at offset {} but serialize returned Ok for {}",
                    kind.name(),
                    plan.wplan.hard.map(|h| h.0).unwrap_or(0),
                    val.show()
                );
            }
            if w.counts.dead_calls > 0 {
                fail!("W2.write_after_error", "", "{} write call(s) after the writer had returned a hard error", w.counts.dead_calls);
            }
            if w.medium[..] != all_ref[..w.medium.len().min(all_ref.len())] || w.medium.len() > all_ref.len() {
                fail!("W2.not_prefix", "", "medium after failed write is not a prefix of the reference encoding: {}", hex(&w.medium));
            }
            write_failed = true;
            break;
        }
        if let Err(e) = r {
            fail!("W1.spurious_error", "", "benign writer schedule, record {}: {}", i, errname(&e));
        }
        if w.accepted() - before != sizes[i] {
            fail!(
                "W1.size_mismatch",
                "",
                "record {} ({}): advertised {} bytes, writer accepted {}",
                i,
                val.show(),
                sizes[i],
                w.accepted() - before
            );
        }
        if w.medium[before..] != refs[i][..] {
            fail!("W1.bytes_depend_on_schedule", "", "record {}: medium {} != reference {}", i, hex(&w.medium[before..]), hex(&refs[i]));
        }
    }
    dg.add(w.digest.finish());
    count_io(stats, "write", &w.counts);
    *fired += w.counts.short + w.counts.eintr;
    if w.counts.eintr > 0 {
        stats.bump("probe.eintr_during_write");
    }
    if write_failed || plan.class == Class::WriteFault {
        if !write_failed {
            stats.bump("fault.write.hard.not_reached");
        }
        return Ok(());
    }
    let chunks = w.chunks;
    let mut medium = w.medium;
    medium.extend(std::iter::repeat(0xA5u8).take(plan.trailer));

    // ---------------------------------------------------------------- medium faults
    if !plan.mops.is_empty() {
        let other = |seed: u64| -> Option<Vec<u8>> {
            catch_unwind(AssertUnwindSafe(|| {
                let val = gen_value::<T>(&ValSpec { seed, simple: false, budget: plan.values[0].budget, huge: false }, false);
                let mut b = Vec::new();
                val.ser(&mut b, c).ok().map(|_| b)
            }))
            .ok()
            .flatten()
        };
        for op in &plan.mops {
            if apply_mop(&mut medium, &chunks, op, &other, sizes[0]) {
                *fired += 1;
                stats.bump(&format!("fault.medium.{}", op.kind()));
                dg.add_str(op.kind());
                if let MOp::SetU64(at, _) = op {
                    if offsets[..n].contains(at) {
                        stats.bump("probe.length_prefix_position_hit");
                    }
                }
            }
        }
    }

    match plan.class {
        Class::Benign => {
            for i in 0..n {
                let mut rd = SimReader::new(&medium, offsets[i], &plan.rplan);
                let win = alloc::begin();
                let r = catch_unwind(AssertUnwindSafe(|| {
                    if plan.conv {
                        T::deser_conv(&mut rd, c, v)
                    } else {
                        T::deser(&mut rd, c, v)
                    }
                }));
                let _ = win.end();
                dg.add(rd.digest.finish());
                count_io(stats, "read", &rd.counts);
                *fired += rd.counts.short + rd.counts.eintr;
                if rd.short_mid_limb {
                    stats.bump("probe.short_read_mid_limb");
                }
                let Ok(r) = r else {
                    let (x, d) = panic_extra();
                    fail!("R1.panic", &x, "record {} ({}): {}", i, vals[i].show(), d);
                };
                let must_ok = vals[i].ref_valid(plan.validate);
                match (r, must_ok) {
                    (Ok(v2), true) => {
                        if !v2.same(&vals[i]) {
                            fail!("R1.value_mismatch", "", "wrote {} read back {}", vals[i].show(), v2.show());
                        }
                        if rd.pos - offsets[i] != sizes[i] {
                            fail!("R1.consumed_mismatch", "", "record {}: advertised size {} but reader consumed {}", i, sizes[i], rd.pos - offsets[i]);
                        }
                        if rd.max_req_end > offsets[i] + sizes[i] {
                            fail!(
                                "R1.read_past_size",
                                "",
                                "record {}: advertised size {} but a read asked for bytes up to offset {}",
                                i,
                                sizes[i],
                                rd.max_req_end - offsets[i]
                            );
                        }
                        dg.add(1);
                    },
                    (Err(e), true) => {
                        fail!("R1.spurious_error", "", "record {} ({}) written by the library failed to deserialize: {}", i, vals[i].show(), errname(&e));
                    },
                    (Ok(v2), false) => {
                        fail!("R1.invalid_accepted", "", "Validate::Yes accepted {} which is not a valid element", v2.show());
                    },
                    (Err(_), false) => {
                        stats.bump("probe.invalid_value_rejected");
                        dg.add(2);
                    },
                }
            }
            Ok(())
        },
        Class::ReadFault => {
            // the stream ends or fails at offset t
            let t = plan
                .rplan
                .hard
                .map(|h| h.0)
                .or_else(|| plan.mops.iter().find_map(|m| if let MOp::Truncate(t) = m { Some(*t) } else { None }))
                .unwrap_or(usize::MAX);
            let mut rd = SimReader::new(&medium, 0, &plan.rplan);
            for i in 0..n {
                let start = rd.pos;
                let r = catch_unwind(AssertUnwindSafe(|| {
                    if plan.conv {
                        T::deser_conv(&mut rd, c, v)
                    } else {
                        T::deser(&mut rd, c, v)
                    }
                }));
                let Ok(r) = r else {
                    let (x, d) = panic_extra();
                    fail!("R2.panic", &x, "record {} ({}), stream ends at {}: {}", i, vals[i].show(), t, d);
                };
                if t >= offsets[i + 1] {
                    // fault lies after this record: must read normally (a value that is not a valid
                    // element must be rejected under Validate::Yes, as in the benign class)
                    if !vals[i].ref_valid(plan.validate) {
                        if let Ok(v2) = r {
                            fail!("R1.invalid_accepted", "", "Validate::Yes accepted {} which is not a valid element", v2.show());
                        }
                        break;
                    }
                    match r {
                        Ok(v2) => {
                            if !v2.same(&vals[i]) {
                                fail!("R1.value_mismatch", "", "wrote {} read back {}", vals[i].show(), v2.show());
                            }
                            if rd.pos - start != sizes[i] {
                                fail!("R1.consumed_mismatch", "", "record {}: advertised size {} but reader consumed {}", i, sizes[i], rd.pos - start);
                            }
                        },
                        Err(e) => {
                            if rd.max_req_end > offsets[i + 1] {
                                fail!("R1.read_past_size", "", "record {}: read past its advertised size into the failing region", i);
                            }
                            fail!("R1.spurious_error", "", "record {} lies before the fault at {} but failed: {}", i, t, errname(&e));
                        },
                    }
                } else {
                    *fired += 1;
                    match rd.hard_fired {
                        Some(k) => stats.bump(&format!("fault.read.hard.{}", if k == HardKind::Zero { "eof" } else { k.name() })),
                        None => stats.bump("fault.medium.truncate"),
                    }
                    if let Ok(v2) = r {
                        fail!(
                            "R2.truncated_accepted",
                            "",
                            "stream ends/fails at offset {} inside record {} (size {}), but deserialization returned {}",
                            t - offsets[i],
                            i,
                            sizes[i],
                            v2.show()
                        );
                    }
                    if rd.counts.dead_calls > 0 && rd.hard_fired != Some(HardKind::Zero) {
                        fail!("R2.read_after_error", "", "{} read call(s) after the reader had returned a hard error", rd.counts.dead_calls);
                    }
                    break;
                }
            }
            dg.add(rd.digest.finish());
            count_io(stats, "read", &rd.counts);
            *fired += rd.counts.short + rd.counts.eintr;
            Ok(())
        },
        Class::Corrupt => read_untrusted::<T>(plan, hooks, prop, stats, dg, &medium, n, c, v),
        _ => Ok(()),
    }
}

/// R3: bytes that the library did not (necessarily) produce.
#[allow(clippy::too_many_arguments)]
fn read_untrusted<T: Sem>(
    plan: &Plan,
    hooks: &Hooks,
    prop: &str,
    stats: &mut Stats,
    dg: &mut Digest,
    medium: &[u8],
    nrec: usize,
    c: Compress,
    v: Validate,
) -> Result<(), Violation> {
    let entry = plan.entry.as_str();
    macro_rules! fail {
        ($inv:expr, $extra:expr, $($fmt:tt)*) => {
            return Err(viol(prop, entry, $inv, $extra, format!($($fmt)*)))
        };
    }
    let budget = 64 * medium.len() + (16 << 20);
    let fixed = if hooks.fixed_size {
        catch_unwind(AssertUnwindSafe(|| gen_value::<T>(&ValSpec { seed: 1, simple: true, budget: 0, huge: false }, false).size(c))).ok()
    } else {
        None
    };
    let mut rd = SimReader::new(medium, 0, &plan.rplan);
    let mut result = Ok(());
    for _ in 0..nrec {
        let start = rd.pos;
        let model = match hooks.model {
            Some(m) => catch_unwind(AssertUnwindSafe(|| m(&medium[start.min(medium.len())..], c))).unwrap_or(Model::None),
            None => Model::None,
        };
        let win = alloc::begin();
        let r = catch_unwind(AssertUnwindSafe(|| if plan.conv { T::deser_conv(&mut rd, c, v) } else { T::deser(&mut rd, c, v) }));
        let usage = win.end();
        stats.max("max.alloc_request_bytes", usage.max_request as u64);
        let Ok(r) = r else {
            let (x, d) = panic_extra();
            result = Err(viol(prop, entry, "R3.panic", &x, format!("deserializing {} (mode compress={} validate={}): {}", hex(&medium[start.min(medium.len())..]), plan.compress, plan.validate, d)));
            break;
        };
        if usage.max_request > budget || usage.peak_delta > budget {
            fail!(
                "R3.unbounded_allocation",
                "",
                "input of {} bytes made deserialization request {} bytes at once (peak {} live); budget is 64x input + 16 MiB: {}",
                medium.len(),
                usage.max_request,
                usage.peak_delta,
                hex(&medium[start.min(medium.len())..])
            );
        }
        if let Some(sz) = fixed {
            if rd.max_req_end > start + sz {
                fail!(
                    "R3.read_past_size",
                    "",
                    "advertised size is {} bytes but a read asked for bytes up to offset {} of {}",
                    sz,
                    rd.max_req_end - start,
                    hex(&medium[start.min(medium.len())..])
                );
            }
        }
        if rd.counts.calls as usize > 64 + 4 * medium.len() {
            fail!("R3.step_budget", "", "{} read calls for {} bytes of input", rd.counts.calls, medium.len());
        }
        match &model {
            Model::Reject(w) => stats.bump(&format!("probe.model_reject.{}", w)),
            Model::Accept { what, .. } => stats.bump(&format!("probe.model_accept.{}", what)),
            Model::Short => stats.bump("probe.model_short"),
            Model::Unknown => stats.bump("probe.model_unknown"),
            Model::None => {},
        }
        match r {
            Err(e) => {
                dg.add_str(&errname(&e));
                stats.bump("untrusted.err");
                break;
            },
            Ok(v2) => {
                dg.add(0x0c);
                stats.bump("untrusted.ok");
                let consumed = &medium[start..rd.pos.min(medium.len())];
                match &model {
                    Model::Reject(w) => {
                        fail!("R3.model_reject_accepted", w, "the wire format rejects {} ({}), but deserialization returned {}", hex(consumed), w, v2.show());
                    },
                    Model::Short => {
                        fail!("R3.short_accepted", "", "fewer bytes than an encoding needs, but deserialization returned {}", v2.show());
                    },
                    Model::Accept { valid: false, what, .. } if plan.validate => {
                        fail!("R3.invalid_accepted", what, "Validate::Yes accepted {} = {} ({})", hex(consumed), v2.show(), what);
                    },
                    _ => {},
                }
                if plan.validate {
                    let ok = catch_unwind(AssertUnwindSafe(|| v2.ref_valid(true)));
                    match ok {
                        Ok(true) => {},
                        Ok(false) => {
                            fail!("R3.invalid_accepted", "ref_valid", "Validate::Yes returned {} from {} which fails the reference validity predicate", v2.show(), hex(consumed));
                        },
                        Err(_) => {
                            let _ = take_panic();
                        },
                    }
                }
                // self-consistency: the value re-serializes and reads back as itself
                let rs = catch_unwind(AssertUnwindSafe(|| {
                    let mut b = Vec::new();
                    let r = v2.ser(&mut b, c);
                    (b, r)
                }));
                let Ok((enc2, r2)) = rs else {
                    let (x, d) = panic_extra();
                    fail!("R3.reserialize_panic", &x, "value {} obtained from {}: {}", v2.show(), hex(consumed), d);
                };
                if let Err(e) = r2 {
                    fail!("R3.reserialize_error", "", "value {} obtained from {} does not serialize: {}", v2.show(), hex(consumed), errname(&e));
                }
                if T::CANONICAL && enc2[..] != consumed[..] {
                    fail!("R3.noncanonical_accepted", "", "bytes {} deserialized to {} which serializes to {}", hex(consumed), v2.show(), hex(&enc2));
                }
                let back = catch_unwind(AssertUnwindSafe(|| T::deser(&enc2[..], c, v)));
                match back {
                    Ok(Ok(v3)) if v3.same(&v2) => {},
                    Ok(Ok(v3)) => {
                        fail!("R3.not_self_consistent", "", "{} re-serialized and read back gives {}", v2.show(), v3.show());
                    },
                    Ok(Err(e)) => {
                        fail!("R3.not_self_consistent", "", "{} (from {}) re-serialized to {} fails to deserialize: {}", v2.show(), hex(consumed), hex(&enc2), errname(&e));
                    },
                    Err(_) => {
                        let (x, d) = panic_extra();
                        fail!("R3.panic", &x, "re-reading {}: {}", hex(&enc2), d);
                    },
                }
            },
        }
    }
    dg.add(rd.digest.finish());
    count_io(stats, "read", &rd.counts);
    result
}

/// Complete single-fault sweeps over one sampled record: every hard write
/// offset, every truncation length, every single-bit flip.
fn execute_sweep<T: Sem>(plan: &Plan, hooks: &Hooks, prop: &str, stats: &mut Stats) -> Exec {
    let c = cmode(plan.compress);
    let mut dg = Digest::default();
    dg.add_str(&plan.entry);
    dg.add_str("sweep");
    let size = catch_unwind(AssertUnwindSafe(|| gen_value::<T>(&plan.values[0], false).size(c))).unwrap_or(0);
    let size = size.min(700);
    dg.add(size as u64);
    let mut evals = 0u64;
    let mut scratch = Stats::default();
    let mut sub = plan.clone();
    sub.trailer = 4;
    let kinds = [HardKind::Eio, HardKind::Zero, HardKind::Enospc, HardKind::WouldBlock];
    let run = |sub: &Plan, evals: &mut u64, scratch: &mut Stats| -> Option<Exec> {
        *evals += 1;
        let e = execute::<T>(sub, hooks, prop, scratch);
        if e.violation.is_some() {
            Some(e)
        } else {
            None
        }
    };
    let mut failing: Option<(Exec, Plan)> = None;
    'all: {
        for t in 0..size {
            sub.class = Class::WriteFault;
            sub.wplan = IoPlan { calls: vec![], hard: Some((t, kinds[t % 4])) };
            sub.rplan = IoPlan::default();
            sub.mops.clear();
            if let Some(e) = run(&sub, &mut evals, &mut scratch) {
                failing = Some((e, sub.clone()));
                break 'all;
            }
        }
        for t in 0..size {
            sub.class = Class::ReadFault;
            sub.wplan = IoPlan::default();
            sub.rplan = IoPlan { calls: vec![], hard: Some((t, if t % 3 == 0 { HardKind::Eio } else { HardKind::Zero })) };
            sub.mops.clear();
            if let Some(e) = run(&sub, &mut evals, &mut scratch) {
                failing = Some((e, sub.clone()));
                break 'all;
            }
        }
        // bit flips: the per-execution cost is dominated by validation of points
        // (containers of zero-sized elements: a flipped length prefix means up to 2^64
        // iterations that read nothing; not judged, so not generated)
        let flip_bytes = if hooks.zst_elems {
            0
        } else {
            size.min(match hooks.budget {
                0 => 12,
                1..=7 => 100,
                _ => 700,
            })
        };
        for pos in 0..flip_bytes {
            for bit in 0..8u8 {
                sub.class = Class::Corrupt;
                sub.wplan = IoPlan::default();
                sub.rplan = IoPlan::default();
                sub.mops = vec![MOp::BitFlip(pos, bit)];
                sub.validate = (pos + bit as usize) % 2 == 0;
                if let Some(e) = run(&sub, &mut evals, &mut scratch) {
                    failing = Some((e, sub.clone()));
                    break 'all;
                }
            }
        }
    }
    stats.add("sweep.records", 1);
    stats.add("sweep.executions", evals);
    for (k, n) in &scratch.counters {
        if k.starts_with("fault.") || k.starts_with("probe.") {
            stats.add(k, *n);
        }
    }
    stats.bump("class.sweep");
    match failing {
        Some((e, p)) => Exec { digest: dg.finish(), nontrivial: true, evals, violation: e.violation, failing_plan: Some(p) },
        None => Exec { digest: dg.finish(), nontrivial: size > 0, evals, violation: None, failing_plan: None },
    }
}

/// Candidate simplifications of a plan, most aggressive first.
pub fn shrink_plan(p: &Plan) -> Vec<Plan> {
    let mut out = vec![];
    if p.values.len() > 1 {
        let mut q = p.clone();
        q.values.pop();
        out.push(q);
        let mut q = p.clone();
        q.values.remove(0);
        out.push(q);
    }
    if !p.wplan.calls.is_empty() || !p.rplan.calls.is_empty() {
        let mut q = p.clone();
        q.wplan.calls.clear();
        q.rplan.calls.clear();
        out.push(q);
    }
    if p.mops.len() > 1 {
        for i in 0..p.mops.len() {
            let mut q = p.clone();
            q.mops.remove(i);
            out.push(q);
        }
    }
    if p.trailer > 0 {
        let mut q = p.clone();
        q.trailer = 0;
        out.push(q);
    }
    if p.conv {
        let mut q = p.clone();
        q.conv = false;
        out.push(q);
    }
    for i in 0..p.values.len() {
        if p.values[i].huge {
            let mut q = p.clone();
            q.values[i].huge = false;
            out.push(q);
        }
        if !p.values[i].simple {
            if p.values[i].budget > 0 {
                let mut q = p.clone();
                q.values[i].budget /= 2;
                out.push(q);
            }
            let mut q = p.clone();
            q.values[i].simple = true;
            out.push(q);
        }
    }
    if !p.wplan.calls.is_empty() {
        let mut q = p.clone();
        q.wplan.calls.pop();
        out.push(q);
    }
    if !p.rplan.calls.is_empty() {
        let mut q = p.clone();
        q.rplan.calls.pop();
        out.push(q);
    }
    out
}
