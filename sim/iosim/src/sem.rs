//! `Sem`: what the harness needs to know about a catalogue type — a seeded
//! generator biased to edge values, equality, an independent validity
//! predicate, and the (library) serialization entry points it goes through.

use ark_serialize::{
    CanonicalDeserialize, CanonicalSerialize, Compress, CompressedChecked, CompressedUnchecked,
    Read, SerializationError, UncompressedChecked, UncompressedUnchecked, Validate, Write,
};
use num_bigint::BigUint;
use simkit::Rng;
use std::borrow::Cow;
use std::collections::{BTreeMap, BTreeSet, LinkedList, VecDeque};
use std::fmt::Debug;
use std::rc::Rc;
use std::sync::Arc;

pub struct G<'a> {
    pub rng: &'a mut Rng,
    /// produce the type's simplest value (used by the shrinker)
    pub simple: bool,
    /// remaining element budget for containers
    pub budget: usize,
    /// may produce values that serialize but are not valid (e.g. points
    /// outside the prime-order subgroup)
    pub invalid_ok: bool,
    /// produce a sequence just around the 1 MiB reservation cap of the deserializers
    /// (used once, by the outermost sequence)
    pub huge: bool,
}

impl G<'_> {
    /// length for a sequence of elements of `elem` bytes each
    pub fn len_for(&mut self, elem: usize) -> usize {
        if self.huge {
            self.huge = false;
            let cap = (1usize << 20) / elem.max(1);
            let n = match self.rng.below(6) {
                0 => cap - 1,
                1 => cap,
                2 | 3 => cap + 1,
                4 => cap + self.rng.range(2, 9),
                _ => cap + cap / 5,
            };
            self.budget = 0;
            return n;
        }
        self.len()
    }
    pub fn len(&mut self) -> usize {
        if self.simple || self.budget == 0 {
            return 0;
        }
        let n = match self.rng.below(20) {
            0..=2 => 0,
            3..=5 => 1,
            6..=11 => self.rng.range(2, 8),
            12..=17 => self.rng.range(2, 40),
            _ => self.rng.range(30, 1100),
        };
        let n = n.min(self.budget);
        self.budget -= n;
        n
    }
}

pub trait Sem: Sized + Debug {
    /// has an encoding that the property requires to be unique (fields, ints)
    const CANONICAL: bool = false;
    /// encodes to zero bytes (the corrupted-length runs skip containers of these)
    const ZST: bool = false;
    fn gen(g: &mut G<'_>) -> Self;
    fn same(&self, o: &Self) -> bool;
    /// Would a deserialization with this `validate` have to accept this value?
    fn ref_valid(&self, _validate: bool) -> bool {
        true
    }
    fn ser<W: Write>(&self, w: W, c: Compress) -> Result<(), SerializationError>;
    fn size(&self, c: Compress) -> usize;
    fn deser<R: Read>(r: R, c: Compress, v: Validate) -> Result<Self, SerializationError>;
    /// The convenience entry points (serialize_compressed etc.); default
    /// forwards to the mode entry points for harness-defined adaptors.
    fn ser_conv<W: Write>(&self, w: W, c: Compress) -> Result<(), SerializationError> {
        self.ser(w, c)
    }
    fn size_conv(&self, c: Compress) -> usize {
        self.size(c)
    }
    fn deser_conv<R: Read>(r: R, c: Compress, v: Validate) -> Result<Self, SerializationError> {
        Self::deser(r, c, v)
    }
    fn show(&self) -> String {
        let s = format!("{:?}", self);
        if s.len() > 240 {
            let mut e = 240;
            while !s.is_char_boundary(e) {
                e -= 1;
            }
            format!("{}…(+{} chars)", &s[..e], s.len() - e)
        } else {
            s
        }
    }
}

/// Fill in the I/O methods for a type that implements both library traits.
#[macro_export]
macro_rules! std_io {
    () => {
        fn ser<W: ark_serialize::Write>(
            &self,
            w: W,
            c: ark_serialize::Compress,
        ) -> Result<(), ark_serialize::SerializationError> {
            ark_serialize::CanonicalSerialize::serialize_with_mode(self, w, c)
        }
        fn size(&self, c: ark_serialize::Compress) -> usize {
            ark_serialize::CanonicalSerialize::serialized_size(self, c)
        }
        fn deser<R: ark_serialize::Read>(
            r: R,
            c: ark_serialize::Compress,
            v: ark_serialize::Validate,
        ) -> Result<Self, ark_serialize::SerializationError> {
            <Self as ark_serialize::CanonicalDeserialize>::deserialize_with_mode(r, c, v)
        }
        fn ser_conv<W: ark_serialize::Write>(
            &self,
            w: W,
            c: ark_serialize::Compress,
        ) -> Result<(), ark_serialize::SerializationError> {
            match c {
                ark_serialize::Compress::Yes => ark_serialize::CanonicalSerialize::serialize_compressed(self, w),
                ark_serialize::Compress::No => ark_serialize::CanonicalSerialize::serialize_uncompressed(self, w),
            }
        }
        fn size_conv(&self, c: ark_serialize::Compress) -> usize {
            match c {
                ark_serialize::Compress::Yes => ark_serialize::CanonicalSerialize::compressed_size(self),
                ark_serialize::Compress::No => ark_serialize::CanonicalSerialize::uncompressed_size(self),
            }
        }
        fn deser_conv<R: ark_serialize::Read>(
            r: R,
            c: ark_serialize::Compress,
            v: ark_serialize::Validate,
        ) -> Result<Self, ark_serialize::SerializationError> {
            use ark_serialize::{CanonicalDeserialize as CD, Compress as C, Validate as V};
            match (c, v) {
                (C::Yes, V::Yes) => <Self as CD>::deserialize_compressed(r),
                (C::Yes, V::No) => <Self as CD>::deserialize_compressed_unchecked(r),
                (C::No, V::Yes) => <Self as CD>::deserialize_uncompressed(r),
                (C::No, V::No) => <Self as CD>::deserialize_uncompressed_unchecked(r),
            }
        }
    };
}

macro_rules! sem_int {
    ($($t:ty),*) => {$(
        impl Sem for $t {
            const CANONICAL: bool = true;
            fn gen(g: &mut G<'_>) -> Self {
                if g.simple { return 0 as $t; }
                match g.rng.below(8) {
                    0 => 0 as $t,
                    1 => 1 as $t,
                    2 => <$t>::MAX,
                    3 => <$t>::MIN,
                    4 => (<$t>::MAX / 2) as $t,
                    _ => g.rng.u64() as $t,
                }
            }
            fn same(&self, o: &Self) -> bool { self == o }
            std_io!();
        }
    )*};
}
sem_int!(u8, u16, u32, u64, i8, i16, i32, i64, usize, isize);

impl Sem for bool {
    // an accepted byte other than 0/1 would re-encode differently
    const CANONICAL: bool = true;
    fn gen(g: &mut G<'_>) -> Self {
        !g.simple && g.rng.chance(1, 2)
    }
    fn same(&self, o: &Self) -> bool {
        self == o
    }
    std_io!();
}

impl Sem for () {
    const CANONICAL: bool = true;
    const ZST: bool = true;
    fn gen(_: &mut G<'_>) -> Self {}
    fn same(&self, _: &Self) -> bool {
        true
    }
    std_io!();
}

impl<T: Send + Sync + Debug> Sem for std::marker::PhantomData<T> {
    const ZST: bool = true;
    fn gen(_: &mut G<'_>) -> Self {
        std::marker::PhantomData
    }
    fn same(&self, _: &Self) -> bool {
        true
    }
    std_io!();
}

impl Sem for String {
    // accepted invalid UTF-8 would have to be replaced or dropped, hence re-encode differently
    const CANONICAL: bool = true;
    fn gen(g: &mut G<'_>) -> Self {
        let huge = g.huge;
        let n = g.len_for(1);
        let ascii = huge || g.rng.chance(1, 2);
        let pool = ['a', 'Z', '0', ' ', '\0', '\u{7f}', 'é', 'ß', '漢', '🦀', '\u{10FFFF}', '\u{80}', '\u{7ff}', '\u{800}'];
        (0..n)
            .map(|_| if ascii { (b' ' + g.rng.below(95) as u8) as char } else { *g.rng.pick(&pool) })
            .collect()
    }
    fn same(&self, o: &Self) -> bool {
        self == o
    }
    std_io!();
}

impl Sem for BigUint {
    fn gen(g: &mut G<'_>) -> Self {
        if g.simple {
            return BigUint::default();
        }
        let n = match g.rng.below(6) {
            0 => 0,
            1 => 1,
            2 => 8,
            3 => 9,
            _ => g.rng.range(0, 70),
        };
        let mut b = g.rng.bytes(n);
        if g.rng.chance(1, 4) {
            for x in &mut b {
                *x = 0xff;
            }
        }
        BigUint::from_bytes_le(&b)
    }
    fn same(&self, o: &Self) -> bool {
        self == o
    }
    std_io!();
}

impl<const N: usize> Sem for ark_ff::BigInt<N> {
    const CANONICAL: bool = true;
    fn gen(g: &mut G<'_>) -> Self {
        let mut l = [0u64; N];
        if !g.simple {
            for x in &mut l {
                *x = match g.rng.below(4) {
                    0 => 0,
                    1 => u64::MAX,
                    _ => g.rng.u64(),
                };
            }
        }
        ark_ff::BigInt(l)
    }
    fn same(&self, o: &Self) -> bool {
        self == o
    }
    std_io!();
}

impl<T: Sem + CanonicalSerialize + CanonicalDeserialize> Sem for Option<T> {
    const CANONICAL: bool = T::CANONICAL;
    fn gen(g: &mut G<'_>) -> Self {
        if g.simple || g.rng.chance(1, 3) {
            None
        } else {
            Some(T::gen(g))
        }
    }
    fn same(&self, o: &Self) -> bool {
        match (self, o) {
            (None, None) => true,
            (Some(a), Some(b)) => a.same(b),
            _ => false,
        }
    }
    fn ref_valid(&self, v: bool) -> bool {
        self.as_ref().map(|x| x.ref_valid(v)).unwrap_or(true)
    }
    std_io!();
}

macro_rules! sem_tuple {
    ($($t:ident : $i:tt),*) => {
        impl<$($t: Sem + CanonicalSerialize + CanonicalDeserialize),*> Sem for ($($t,)*) {
            const CANONICAL: bool = true $(&& $t::CANONICAL)*;
            fn gen(g: &mut G<'_>) -> Self { ($($t::gen(g),)*) }
            fn same(&self, o: &Self) -> bool { true $(&& self.$i.same(&o.$i))* }
            fn ref_valid(&self, v: bool) -> bool { true $(&& self.$i.ref_valid(v))* }
            std_io!();
        }
    };
}
sem_tuple!(A:0);
sem_tuple!(A:0, B:1);
sem_tuple!(A:0, B:1, C:2);
sem_tuple!(A:0, B:1, C:2, D:3);
sem_tuple!(A:0, B:1, C:2, D:3, E:4);

impl<T: Sem + CanonicalSerialize + CanonicalDeserialize, const N: usize> Sem for [T; N] {
    const CANONICAL: bool = T::CANONICAL;
    const ZST: bool = N == 0 || T::ZST;
    fn gen(g: &mut G<'_>) -> Self {
        std::array::from_fn(|_| T::gen(g))
    }
    fn same(&self, o: &Self) -> bool {
        self.iter().zip(o.iter()).all(|(a, b)| a.same(b))
    }
    fn ref_valid(&self, v: bool) -> bool {
        self.iter().all(|x| x.ref_valid(v))
    }
    std_io!();
}

macro_rules! sem_seq {
    ($c:ident) => {
        impl<T: Sem + CanonicalSerialize + CanonicalDeserialize> Sem for $c<T> {
            const CANONICAL: bool = T::CANONICAL;
            fn gen(g: &mut G<'_>) -> Self {
                let n = g.len_for(std::mem::size_of::<T>());
                (0..n).map(|_| T::gen(g)).collect()
            }
            fn same(&self, o: &Self) -> bool {
                self.len() == o.len() && self.iter().zip(o.iter()).all(|(a, b)| a.same(b))
            }
            fn ref_valid(&self, v: bool) -> bool {
                self.iter().all(|x| x.ref_valid(v))
            }
            std_io!();
        }
    };
}
sem_seq!(Vec);
sem_seq!(LinkedList);

/// A `VecDeque` has hidden layout state (where the ring buffer starts, whether it has
/// wrapped), so its values are produced by an operation history, not by `collect()`:
/// rotations through push_back/pop_front, pushes at both ends, explicit rotate_left.
impl<T: Sem + CanonicalSerialize + CanonicalDeserialize> Sem for VecDeque<T> {
    const CANONICAL: bool = T::CANONICAL;
    fn gen(g: &mut G<'_>) -> Self {
        let n = g.len_for(std::mem::size_of::<T>());
        match g.rng.below(4) {
            0 => (0..n).map(|_| T::gen(g)).collect(),
            1 => {
                // advance the head, then fill: the contents wrap around the end of the buffer
                let mut d = VecDeque::with_capacity(n.max(1));
                let cap = d.capacity();
                let shift = if cap > 1 { g.rng.range(1, cap - 1) } else { 0 };
                for _ in 0..shift {
                    d.push_back(T::gen(g));
                }
                for _ in 0..shift {
                    d.pop_front();
                }
                for _ in 0..n {
                    d.push_back(T::gen(g));
                }
                d
            },
            2 => {
                let mut d = VecDeque::new();
                for _ in 0..n {
                    if g.rng.chance(1, 2) {
                        d.push_front(T::gen(g));
                    } else {
                        d.push_back(T::gen(g));
                    }
                }
                d
            },
            _ => {
                let mut d: VecDeque<T> = (0..n).map(|_| T::gen(g)).collect();
                if n > 1 {
                    let k = g.rng.range(1, n - 1);
                    d.rotate_left(k);
                    d.push_front(T::gen(g));
                }
                d
            },
        }
    }
    fn same(&self, o: &Self) -> bool {
        self.len() == o.len() && self.iter().zip(o.iter()).all(|(a, b)| a.same(b))
    }
    fn ref_valid(&self, v: bool) -> bool {
        self.iter().all(|x| x.ref_valid(v))
    }
    fn show(&self) -> String {
        let (a, b) = self.as_slices();
        let s = format!("{:?} (ring buffer slices of {} + {})", self, a.len(), b.len());
        if s.len() > 260 {
            let mut e = 240;
            while !s.is_char_boundary(e) {
                e -= 1;
            }
            format!("{}…(+{} chars; slices {} + {})", &s[..e], s.len() - e, a.len(), b.len())
        } else {
            s
        }
    }
    std_io!();
}

impl<T: Sem + Ord + CanonicalSerialize + CanonicalDeserialize> Sem for BTreeSet<T> {
    fn gen(g: &mut G<'_>) -> Self {
        let n = g.len();
        (0..n).map(|_| T::gen(g)).collect()
    }
    fn same(&self, o: &Self) -> bool {
        self.len() == o.len() && self.iter().zip(o.iter()).all(|(a, b)| a.same(b))
    }
    fn ref_valid(&self, v: bool) -> bool {
        self.iter().all(|x| x.ref_valid(v))
    }
    std_io!();
}

impl<K, V> Sem for BTreeMap<K, V>
where
    K: Sem + Ord + CanonicalSerialize + CanonicalDeserialize,
    V: Sem + CanonicalSerialize + CanonicalDeserialize,
{
    fn gen(g: &mut G<'_>) -> Self {
        let n = g.len();
        (0..n).map(|_| (K::gen(g), V::gen(g))).collect()
    }
    fn same(&self, o: &Self) -> bool {
        self.len() == o.len()
            && self.iter().zip(o.iter()).all(|(a, b)| a.0.same(b.0) && a.1.same(b.1))
    }
    fn ref_valid(&self, v: bool) -> bool {
        self.iter().all(|(k, x)| k.ref_valid(v) && x.ref_valid(v))
    }
    std_io!();
}

impl<T: Sem + CanonicalSerialize + CanonicalDeserialize + ToOwned + Sync + Send> Sem for Arc<T> {
    fn gen(g: &mut G<'_>) -> Self {
        Arc::new(T::gen(g))
    }
    fn same(&self, o: &Self) -> bool {
        self.as_ref().same(o.as_ref())
    }
    fn ref_valid(&self, v: bool) -> bool {
        self.as_ref().ref_valid(v)
    }
    std_io!();
}

impl<T> Sem for Cow<'static, T>
where
    T: Sem + Clone + CanonicalSerialize + CanonicalDeserialize + Sync + Send + 'static,
{
    fn gen(g: &mut G<'_>) -> Self {
        Cow::Owned(T::gen(g))
    }
    fn same(&self, o: &Self) -> bool {
        self.as_ref().same(o.as_ref())
    }
    fn ref_valid(&self, v: bool) -> bool {
        self.as_ref().ref_valid(v)
    }
    std_io!();
}

macro_rules! sem_wrapper {
    ($w:ident, $validate:expr) => {
        impl<T: Sem + CanonicalSerialize + CanonicalDeserialize> Sem for $w<T> {
            fn gen(g: &mut G<'_>) -> Self {
                $w(T::gen(g))
            }
            fn same(&self, o: &Self) -> bool {
                self.0.same(&o.0)
            }
            fn ref_valid(&self, _v: bool) -> bool {
                // the wrapper pins the validation mode
                self.0.ref_valid($validate)
            }
            std_io!();
        }
    };
}
sem_wrapper!(CompressedChecked, true);
sem_wrapper!(UncompressedChecked, true);
sem_wrapper!(CompressedUnchecked, false);
sem_wrapper!(UncompressedUnchecked, false);

// ---- adaptors for the serialize-only impls (Rc, &T, &mut T, slices) --------
// The value is written through the library's impl for the borrowed / shared
// form and read back as the owned form.

macro_rules! adaptor_io {
    ($self_:ident, $w:ident, $c:ident, $ser:expr, $size:expr) => {
        fn ser<W: Write>(&$self_, $w: W, $c: Compress) -> Result<(), SerializationError> {
            $ser
        }
        fn size(&$self_, $c: Compress) -> usize {
            $size
        }
    };
}

#[derive(Debug)]
pub struct ViaRc<T>(pub Rc<T>);
impl<T: Sem + CanonicalSerialize + CanonicalDeserialize + ToOwned> Sem for ViaRc<T> {
    fn gen(g: &mut G<'_>) -> Self {
        ViaRc(Rc::new(T::gen(g)))
    }
    fn same(&self, o: &Self) -> bool {
        self.0.as_ref().same(o.0.as_ref())
    }
    fn ref_valid(&self, v: bool) -> bool {
        self.0.ref_valid(v)
    }
    adaptor_io!(self, w, c, self.0.serialize_with_mode(w, c), self.0.serialized_size(c));
    fn deser<R: Read>(r: R, c: Compress, v: Validate) -> Result<Self, SerializationError> {
        T::deserialize_with_mode(r, c, v).map(|t| ViaRc(Rc::new(t)))
    }
}

#[derive(Debug)]
pub struct ViaRef<T>(pub T);
impl<T: Sem + CanonicalSerialize + CanonicalDeserialize> Sem for ViaRef<T> {
    fn gen(g: &mut G<'_>) -> Self {
        ViaRef(T::gen(g))
    }
    fn same(&self, o: &Self) -> bool {
        self.0.same(&o.0)
    }
    fn ref_valid(&self, v: bool) -> bool {
        self.0.ref_valid(v)
    }
    adaptor_io!(self, w, c, (&&self.0).serialize_with_mode(w, c), (&&self.0).serialized_size(c));
    fn deser<R: Read>(r: R, c: Compress, v: Validate) -> Result<Self, SerializationError> {
        T::deserialize_with_mode(r, c, v).map(ViaRef)
    }
}

#[derive(Debug)]
pub struct ViaMutRef<T>(pub T);
impl<T: Sem + Clone + CanonicalSerialize + CanonicalDeserialize> Sem for ViaMutRef<T> {
    fn gen(g: &mut G<'_>) -> Self {
        ViaMutRef(T::gen(g))
    }
    fn same(&self, o: &Self) -> bool {
        self.0.same(&o.0)
    }
    fn ref_valid(&self, v: bool) -> bool {
        self.0.ref_valid(v)
    }
    fn ser<W: Write>(&self, w: W, c: Compress) -> Result<(), SerializationError> {
        let mut t = self.0.clone();
        let m: &mut T = &mut t;
        CanonicalSerialize::serialize_with_mode(&m, w, c)
    }
    fn size(&self, c: Compress) -> usize {
        let mut t = self.0.clone();
        let m: &mut T = &mut t;
        CanonicalSerialize::serialized_size(&m, c)
    }
    fn deser<R: Read>(r: R, c: Compress, v: Validate) -> Result<Self, SerializationError> {
        T::deserialize_with_mode(r, c, v).map(ViaMutRef)
    }
}

/// written as `&[T]` (the slice impl), read back as `Vec<T>`
#[derive(Debug)]
pub struct ViaSlice<T>(pub Vec<T>);
impl<T: Sem + CanonicalSerialize + CanonicalDeserialize> Sem for ViaSlice<T> {
    fn gen(g: &mut G<'_>) -> Self {
        ViaSlice(Vec::<T>::gen(g))
    }
    fn same(&self, o: &Self) -> bool {
        self.0.same(&o.0)
    }
    fn ref_valid(&self, v: bool) -> bool {
        self.0.ref_valid(v)
    }
    fn ser<W: Write>(&self, w: W, c: Compress) -> Result<(), SerializationError> {
        let s: &[T] = &self.0;
        CanonicalSerialize::serialize_with_mode(&s, w, c)
    }
    fn size(&self, c: Compress) -> usize {
        // the impl for `&[T]` (not the one for `[T]`): same impl as `ser` goes through
        let s: &[T] = &self.0;
        <&[T] as CanonicalSerialize>::serialized_size(&s, c)
    }
    fn deser<R: Read>(r: R, c: Compress, v: Validate) -> Result<Self, SerializationError> {
        Vec::<T>::deserialize_with_mode(r, c, v).map(ViaSlice)
    }
}

// ---- the serialize_to_vec! macro ------------------------------------------------------
// Its documentation says "compressed", its implementation writes every argument
// uncompressed; the harness only demands that ALL arguments are written in ONE mode (so
// that the result reads back as the tuple in that mode), and finds out which by a probe.

fn macro_mode() -> Compress {
    // a value whose size depends on the mode
    let probe = CompressedChecked(0u8);
    let _ = probe;
    let p = <ark_test_curves::bls12_381::G1Affine as ark_ec::AffineRepr>::generator();
    match ark_serialize::serialize_to_vec![p] {
        Ok(b) if b.len() == p.compressed_size() => Compress::Yes,
        _ => Compress::No,
    }
}

#[derive(Debug)]
pub struct ViaMacro2<A, B>(pub A, pub B);
impl<A, B> Sem for ViaMacro2<A, B>
where
    A: Sem + CanonicalSerialize + CanonicalDeserialize,
    B: Sem + CanonicalSerialize + CanonicalDeserialize,
{
    fn gen(g: &mut G<'_>) -> Self {
        ViaMacro2(A::gen(g), B::gen(g))
    }
    fn same(&self, o: &Self) -> bool {
        self.0.same(&o.0) && self.1.same(&o.1)
    }
    fn ref_valid(&self, v: bool) -> bool {
        self.0.ref_valid(v) && self.1.ref_valid(v)
    }
    fn ser<W: Write>(&self, mut w: W, _c: Compress) -> Result<(), SerializationError> {
        let bytes = ark_serialize::serialize_to_vec![self.0, self.1]?;
        w.write_all(&bytes)?;
        Ok(())
    }
    fn size(&self, _c: Compress) -> usize {
        let m = macro_mode();
        self.0.serialized_size(m) + self.1.serialized_size(m)
    }
    fn deser<R: Read>(r: R, _c: Compress, v: Validate) -> Result<Self, SerializationError> {
        <(A, B)>::deserialize_with_mode(r, macro_mode(), v).map(|t| ViaMacro2(t.0, t.1))
    }
}

#[derive(Debug)]
pub struct ViaMacro1<A>(pub A);
impl<A: Sem + CanonicalSerialize + CanonicalDeserialize> Sem for ViaMacro1<A> {
    fn gen(g: &mut G<'_>) -> Self {
        ViaMacro1(A::gen(g))
    }
    fn same(&self, o: &Self) -> bool {
        self.0.same(&o.0)
    }
    fn ref_valid(&self, v: bool) -> bool {
        self.0.ref_valid(v)
    }
    fn ser<W: Write>(&self, mut w: W, _c: Compress) -> Result<(), SerializationError> {
        let bytes = ark_serialize::serialize_to_vec![self.0]?;
        w.write_all(&bytes)?;
        Ok(())
    }
    fn size(&self, _c: Compress) -> usize {
        self.0.serialized_size(macro_mode())
    }
    fn deser<R: Read>(r: R, _c: Compress, v: Validate) -> Result<Self, SerializationError> {
        A::deserialize_with_mode(r, macro_mode(), v).map(ViaMacro1)
    }
}
