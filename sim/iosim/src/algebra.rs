//! `Sem` for field elements and curve points, the independent wire-format
//! model, and the reference group law (own Jacobian / projective-Edwards
//! formulas over the library's *field* arithmetic only).

use crate::sem::{Sem, G};
use crate::std_io;
use ark_ec::pairing::{Pairing, PairingOutput};
use ark_ec::short_weierstrass as sw;
use ark_ec::twisted_edwards as te;
use ark_ec::{AdditiveGroup, AffineRepr, CurveConfig, CurveGroup, PrimeGroup};
use ark_ff::{
    BigInteger, CubicExtConfig, CubicExtField, Field, Fp, FpConfig, PrimeField, QuadExtConfig,
    QuadExtField, UniformRand, Zero,
};
use ark_serialize::Compress;
use num_bigint::BigUint;

// ------------------------------------------------------------ field helpers

pub fn modulus<F: PrimeField>() -> BigUint {
    BigUint::from_bytes_le(&F::MODULUS.to_bytes_le())
}

fn gen_prime<F: PrimeField>(g: &mut G<'_>) -> F {
    if g.simple {
        return F::zero();
    }
    match g.rng.below(12) {
        0 => F::zero(),
        1 => F::one(),
        2 => -F::one(),
        3 => F::from_bigint(F::MODULUS_MINUS_ONE_DIV_TWO).unwrap(),
        4 => F::from_bigint(F::MODULUS_MINUS_ONE_DIV_TWO).unwrap() + F::one(),
        5 => {
            let k = g.rng.below(F::MODULUS_BIT_SIZE as usize - 1);
            F::from(BigUint::from(1u8) << k)
        },
        6 => {
            // limbs of all ones (reduced)
            let n = g.rng.range(1, (F::MODULUS_BIT_SIZE as usize).div_ceil(8));
            F::from_le_bytes_mod_order(&vec![0xffu8; n])
        },
        7 => -F::from(g.rng.below(300) as u64),
        8 => F::from(g.rng.below(300) as u64),
        _ => F::rand(g.rng),
    }
}

pub fn gen_field<F: Field>(g: &mut G<'_>) -> F {
    let d = F::extension_degree() as usize;
    let sparse = !g.simple && d > 1 && g.rng.chance(1, 4);
    let elems: Vec<F::BasePrimeField> = (0..d)
        .map(|_| {
            if sparse && g.rng.chance(2, 3) {
                F::BasePrimeField::zero()
            } else {
                gen_prime::<F::BasePrimeField>(g)
            }
        })
        .collect();
    F::from_base_prime_field_elems(elems).unwrap()
}

/// Outcome of the wire-format model on a byte string.
#[derive(Debug, Clone, PartialEq)]
pub enum Model {
    /// no model for this type
    None,
    /// fewer bytes than the encoding needs
    Short,
    /// the documented format rejects these bytes
    Reject(&'static str),
    /// the format leaves it open (documented liberal behaviour)
    Unknown,
    /// a well-formed encoding; `valid` = the decoded value passes the
    /// reference validity predicate (on curve and in the prime-order subgroup)
    Accept { consumed: usize, valid: bool, what: &'static str },
}

pub enum Dec<T> {
    Short,
    Reject(&'static str),
    Unknown,
    Ok(T),
}

pub fn prime_bytes<F: PrimeField>() -> usize {
    (F::MODULUS_BIT_SIZE as usize).div_ceil(8)
}

pub fn field_size<F: Field>(flag_bits: usize) -> usize {
    let bits = <F::BasePrimeField as PrimeField>::MODULUS_BIT_SIZE as usize;
    let d = F::extension_degree() as usize;
    (d - 1) * bits.div_ceil(8) + (bits + flag_bits).div_ceil(8)
}

/// Decode a field element from the documented format: per base-field
/// coordinate a little-endian integer in ceil(bits/8) bytes; the last
/// coordinate in ceil((bits+flag_bits)/8) bytes with the flags in the top
/// bits of the last byte.  Returns (value, flag byte masked to the flag bits, consumed).
pub fn model_field<F: Field>(bytes: &[u8], flag_bits: usize) -> Dec<(F, u8, usize)> {
    let bits = <F::BasePrimeField as PrimeField>::MODULUS_BIT_SIZE as usize;
    let limbs = <<F::BasePrimeField as PrimeField>::BigInt as BigInteger>::NUM_LIMBS;
    let fb = bits.div_ceil(8);
    let lfb = (bits + flag_bits).div_ceil(8);
    let d = F::extension_degree() as usize;
    let total = (d - 1) * fb + lfb;
    if bytes.len() < total {
        return Dec::Short;
    }
    let p = modulus::<F::BasePrimeField>();
    let mut elems = Vec::with_capacity(d);
    for i in 0..d - 1 {
        let v = BigUint::from_bytes_le(&bytes[i * fb..(i + 1) * fb]);
        if v >= p {
            return Dec::Reject("coordinate integer >= modulus");
        }
        elems.push(F::BasePrimeField::from(v));
    }
    let mut chunk = bytes[(d - 1) * fb..total].to_vec();
    let mask: u8 = if flag_bits == 0 { 0 } else { !(0xffu8 >> flag_bits) };
    let flags = chunk[lfb - 1] & mask;
    chunk[lfb - 1] &= !mask;
    let mut unknown = false;
    if lfb > 8 * limbs {
        // flags spilled into an extra byte that the integer does not use; the
        // library ignores its low bits (documented liberal behaviour).
        if chunk[lfb - 1] != 0 {
            unknown = true;
        }
        chunk.truncate(lfb - 1);
    }
    let v = BigUint::from_bytes_le(&chunk);
    if v >= p {
        return Dec::Reject("integer >= modulus or stray high bits");
    }
    if unknown {
        return Dec::Unknown;
    }
    elems.push(F::BasePrimeField::from(v));
    Dec::Ok((F::from_base_prime_field_elems(elems).unwrap(), flags, total))
}

/// Encoder side of the wire-format model (used for foreign records).
pub fn enc_field<F: Field>(v: &F, flags: u8, flag_bits: usize) -> Vec<u8> {
    let bits = <F::BasePrimeField as PrimeField>::MODULUS_BIT_SIZE as usize;
    let fb = bits.div_ceil(8);
    let lfb = (bits + flag_bits).div_ceil(8);
    let elems: Vec<F::BasePrimeField> = v.to_base_prime_field_elements().collect();
    let d = elems.len();
    let mut out = vec![];
    for (i, e) in elems.iter().enumerate() {
        let mut b = e.into_bigint().to_bytes_le();
        let want = if i + 1 == d { lfb } else { fb };
        b.resize(want, 0);
        if i + 1 == d {
            b[want - 1] |= flags;
        }
        out.extend_from_slice(&b);
    }
    out
}

/// Encode raw integers (not necessarily reduced) as a prime-field element.
pub fn enc_raw(v: &BigUint, nbytes: usize) -> Option<Vec<u8>> {
    let mut b = v.to_bytes_le();
    if b.len() > nbytes {
        return None;
    }
    b.resize(nbytes, 0);
    Some(b)
}

/// lexicographic order used for the sign bit: compare base-field coordinates
/// from the highest to the lowest as integers.
fn lex_gt<F: Field>(a: &F, b: &F) -> bool {
    let av: Vec<BigUint> = a
        .to_base_prime_field_elements()
        .map(|e| BigUint::from_bytes_le(&e.into_bigint().to_bytes_le()))
        .collect();
    let bv: Vec<BigUint> = b
        .to_base_prime_field_elements()
        .map(|e| BigUint::from_bytes_le(&e.into_bigint().to_bytes_le()))
        .collect();
    for i in (0..av.len()).rev() {
        if av[i] != bv[i] {
            return av[i] > bv[i];
        }
    }
    false
}

fn field_model_for_sem<F: Field>(bytes: &[u8]) -> Model {
    match model_field::<F>(bytes, 0) {
        Dec::Short => Model::Short,
        Dec::Reject(w) => Model::Reject(w),
        Dec::Unknown => Model::Unknown,
        Dec::Ok((_, _, n)) => Model::Accept { consumed: n, valid: true, what: "field element" },
    }
}

/// Foreign records for a field: encodings a different writer could have produced.
fn field_foreign<F: Field>(g: &mut G<'_>) -> Option<(Vec<u8>, &'static str)> {
    let v: F = gen_field(g);
    let mut enc = enc_field(&v, 0, 0);
    let fb = prime_bytes::<F::BasePrimeField>();
    let d = F::extension_degree() as usize;
    let coord = g.rng.below(d);
    let p = modulus::<F::BasePrimeField>();
    match g.rng.below(5) {
        0 => {
            // v + p in one coordinate, if it fits the byte width
            let cur = BigUint::from_bytes_le(&enc[coord * fb..(coord + 1) * fb]);
            let raw = enc_raw(&(cur + &p), fb)?;
            enc[coord * fb..(coord + 1) * fb].copy_from_slice(&raw);
            Some((enc, "integer v+p"))
        },
        1 => {
            let raw = enc_raw(&p, fb)?;
            enc[coord * fb..(coord + 1) * fb].copy_from_slice(&raw);
            Some((enc, "integer == p"))
        },
        2 => {
            // stray high bit in the top byte of a coordinate
            let bits = <F::BasePrimeField as PrimeField>::MODULUS_BIT_SIZE as usize;
            let spare = fb * 8 - bits;
            if spare == 0 {
                return None;
            }
            let bit = 8 - 1 - g.rng.below(spare);
            enc[(coord + 1) * fb - 1] |= 1 << bit;
            Some((enc, "stray high bit"))
        },
        3 => {
            for b in &mut enc[coord * fb..(coord + 1) * fb] {
                *b = 0xff;
            }
            Some((enc, "all ones"))
        },
        _ => {
            // p - 1: the largest valid value (must be accepted)
            let raw = enc_raw(&(p - 1u8), fb)?;
            enc[coord * fb..(coord + 1) * fb].copy_from_slice(&raw);
            Some((enc, "integer p-1 (valid)"))
        },
    }
}

impl<P: FpConfig<N>, const N: usize> Sem for Fp<P, N> {
    const CANONICAL: bool = true;
    fn gen(g: &mut G<'_>) -> Self {
        gen_field(g)
    }
    fn same(&self, o: &Self) -> bool {
        self == o
    }
    std_io!();
}
impl<P: QuadExtConfig> Sem for QuadExtField<P> {
    const CANONICAL: bool = true;
    fn gen(g: &mut G<'_>) -> Self {
        gen_field(g)
    }
    fn same(&self, o: &Self) -> bool {
        self == o
    }
    std_io!();
}
impl<P: CubicExtConfig> Sem for CubicExtField<P> {
    const CANONICAL: bool = true;
    fn gen(g: &mut G<'_>) -> Self {
        gen_field(g)
    }
    fn same(&self, o: &Self) -> bool {
        self == o
    }
    std_io!();
}

/// Types with a wire-format model and foreign-record generator.
pub trait Wire: Sem {
    fn model(bytes: &[u8], c: Compress) -> Model;
    fn foreign(g: &mut G<'_>, c: Compress) -> Option<(Vec<u8>, &'static str)>;
}

macro_rules! wire_field {
    ($($gen:tt)*) => {
        impl<$($gen)*> Wire for Fp<P, N> {
            fn model(bytes: &[u8], _c: Compress) -> Model { field_model_for_sem::<Self>(bytes) }
            fn foreign(g: &mut G<'_>, _c: Compress) -> Option<(Vec<u8>, &'static str)> { field_foreign::<Self>(g) }
        }
    };
}
wire_field!(P: FpConfig<N>, const N: usize);
impl<P: QuadExtConfig> Wire for QuadExtField<P> {
    fn model(bytes: &[u8], _c: Compress) -> Model {
        field_model_for_sem::<Self>(bytes)
    }
    fn foreign(g: &mut G<'_>, _c: Compress) -> Option<(Vec<u8>, &'static str)> {
        field_foreign::<Self>(g)
    }
}
impl<P: CubicExtConfig> Wire for CubicExtField<P> {
    fn model(bytes: &[u8], _c: Compress) -> Model {
        field_model_for_sem::<Self>(bytes)
    }
    fn foreign(g: &mut G<'_>, _c: Compress) -> Option<(Vec<u8>, &'static str)> {
        field_foreign::<Self>(g)
    }
}

// ------------------------------------------------------------ reference group law (SW)

fn scalar_modulus<C: CurveConfig>() -> BigUint {
    modulus::<C::ScalarField>()
}

#[derive(Clone, Copy)]
struct Jac<F: Field> {
    x: F,
    y: F,
    z: F,
}

fn sw_double<P: sw::SWCurveConfig>(p: &Jac<P::BaseField>) -> Jac<P::BaseField> {
    if p.z.is_zero() || p.y.is_zero() {
        return Jac { x: P::BaseField::ONE, y: P::BaseField::ONE, z: P::BaseField::ZERO };
    }
    let xx = p.x.square();
    let yy = p.y.square();
    let yyyy = yy.square();
    let zz = p.z.square();
    let s = ((p.x + yy).square() - xx - yyyy).double();
    let m = xx.double() + xx + P::COEFF_A * zz.square();
    let t = m.square() - s.double();
    let y3 = m * (s - t) - yyyy.double().double().double();
    let z3 = (p.y + p.z).square() - yy - zz;
    Jac { x: t, y: y3, z: z3 }
}

fn sw_add<P: sw::SWCurveConfig>(p: &Jac<P::BaseField>, q: &Jac<P::BaseField>) -> Jac<P::BaseField> {
    if p.z.is_zero() {
        return *q;
    }
    if q.z.is_zero() {
        return *p;
    }
    let z1z1 = p.z.square();
    let z2z2 = q.z.square();
    let u1 = p.x * z2z2;
    let u2 = q.x * z1z1;
    let s1 = p.y * q.z * z2z2;
    let s2 = q.y * p.z * z1z1;
    if u1 == u2 {
        if s1 == s2 {
            return sw_double::<P>(p);
        }
        return Jac { x: P::BaseField::ONE, y: P::BaseField::ONE, z: P::BaseField::ZERO };
    }
    let h = u2 - u1;
    let i = h.double().square();
    let j = h * i;
    let r = (s2 - s1).double();
    let v = u1 * i;
    let x3 = r.square() - j - v.double();
    let y3 = r * (v - x3) - (s1 * j).double();
    let z3 = ((p.z + q.z).square() - z1z1 - z2z2) * h;
    Jac { x: x3, y: y3, z: z3 }
}

/// k·(x,y) by double-and-add; returns None for the identity, else affine coordinates.
pub fn ref_sw_mul<P: sw::SWCurveConfig>(
    x: P::BaseField,
    y: P::BaseField,
    k: &BigUint,
) -> Option<(P::BaseField, P::BaseField)> {
    let base = Jac { x, y, z: P::BaseField::ONE };
    let mut acc = Jac { x: P::BaseField::ONE, y: P::BaseField::ONE, z: P::BaseField::ZERO };
    for i in (0..k.bits()).rev() {
        acc = sw_double::<P>(&acc);
        if k.bit(i) {
            acc = sw_add::<P>(&acc, &base);
        }
    }
    if acc.z.is_zero() {
        return None;
    }
    let zi = acc.z.inverse().unwrap();
    let zi2 = zi.square();
    Some((acc.x * zi2, acc.y * zi2 * zi))
}

pub fn ref_sw_on_curve<P: sw::SWCurveConfig>(x: &P::BaseField, y: &P::BaseField) -> bool {
    y.square() == x.square() * x + P::COEFF_A * x + P::COEFF_B
}

/// Reference validity of an affine SW point given by coordinates.
pub fn ref_sw_valid<P: sw::SWCurveConfig>(x: &P::BaseField, y: &P::BaseField) -> bool {
    ref_sw_on_curve::<P>(x, y) && ref_sw_mul::<P>(*x, *y, &scalar_modulus::<P>()).is_none()
}

/// A point of the curve that is (when the cofactor is not 1) almost surely
/// outside the prime-order subgroup: random x until x^3+ax+b is a square.
fn sw_random_curve_point<P: sw::SWCurveConfig>(g: &mut G<'_>) -> sw::Affine<P> {
    loop {
        let x: P::BaseField = P::BaseField::rand(g.rng);
        let rhs = x.square() * x + P::COEFF_A * x + P::COEFF_B;
        if let Some(y) = rhs.sqrt() {
            // the workload must not inherit a wrong root from the library
            assert!(y.square() == rhs, "library sqrt returned a value whose square is not the input");
            let y = if g.rng.chance(1, 2) { y } else { -y };
            return sw::Affine::<P>::new_unchecked(x, y);
        }
    }
}


/// For a = 0 curves over a quadratic extension Fp[u]/(u^2 - beta): an x whose
/// right-hand side x^3 + b lies in the prime subfield (there every element is a
/// square of the extension, half of them non-residues of Fp) — the special case
/// square-root routines treat separately.  Solves c1(x^3 + b) = 0 for x0 given x1.
fn sw_x_with_rhs_in_subfield<P: sw::SWCurveConfig>(g: &mut G<'_>) -> Option<P::BaseField> {
    type Bp<P> = <<P as CurveConfig>::BaseField as Field>::BasePrimeField;
    if P::BaseField::extension_degree() != 2 || !P::COEFF_A.is_zero() {
        return None;
    }
    let mk = |c0: Bp<P>, c1: Bp<P>| P::BaseField::from_base_prime_field_elems([c0, c1]).unwrap();
    let u = mk(Bp::<P>::zero(), Bp::<P>::ONE);
    let beta = u.square().to_base_prime_field_elements().next().unwrap();
    let b: Vec<Bp<P>> = P::COEFF_B.to_base_prime_field_elements().collect();
    for _ in 0..64 {
        let x1 = Bp::<P>::rand(g.rng);
        if x1.is_zero() {
            continue;
        }
        // c1(x^3) = 3 x0^2 x1 + beta x1^3  =>  x0^2 = -(beta x1^3 + b1) / (3 x1)
        let three_x1 = x1.double() + x1;
        let t = -(beta * x1.square() * x1 + b[1]) * three_x1.inverse()?;
        if let Some(x0) = t.sqrt() {
            let x = mk(x0, x1);
            let rhs = x.square() * x + P::COEFF_B;
            let c: Vec<Bp<P>> = rhs.to_base_prime_field_elements().collect();
            if c[1].is_zero() {
                return Some(x);
            }
        }
    }
    None
}

/// A point of order two (y = 0, the y = -y sign tie) when the curve has one: multiply a
/// random curve point by r * cofactor / 2.  None when the cofactor is odd or the draw
/// lands on the identity.
fn sw_two_torsion_point<P: sw::SWCurveConfig>(g: &mut G<'_>) -> Option<sw::Affine<P>> {
    if P::COFACTOR.is_empty() || P::COFACTOR[0] & 1 == 1 {
        return None;
    }
    let mut h = BigUint::default();
    for (i, l) in P::COFACTOR.iter().enumerate() {
        h += BigUint::from(*l) << (64 * i);
    }
    let k = (h >> 1u32) * scalar_modulus::<P>();
    let limbs: Vec<u64> = k.to_u64_digits();
    for _ in 0..4 {
        let q = sw_random_curve_point::<P>(g);
        let t = q.mul_bigint(&limbs).into_affine();
        if !t.infinity && t.y.is_zero() && ref_sw_on_curve::<P>(&t.x, &t.y) {
            return Some(t);
        }
    }
    None
}

/// r * Q for a random curve point Q: a point of the cofactor part of the group (of small
/// order when the cofactor is small - orders 2, 4, 8 on Jubjub-like curves).
fn sw_cofactor_part_point<P: sw::SWCurveConfig>(g: &mut G<'_>) -> sw::Affine<P> {
    let q = sw_random_curve_point::<P>(g);
    match ref_sw_mul::<P>(q.x, q.y, &scalar_modulus::<P>()) {
        Some((x, y)) if ref_sw_on_curve::<P>(&x, &y) => sw::Affine::<P>::new_unchecked(x, y),
        _ => q,
    }
}

fn gen_scalar<F: PrimeField>(g: &mut G<'_>) -> F {
    match g.rng.below(8) {
        0 => F::one(),
        1 => -F::one(),
        2 => F::from(2u64),
        3 => F::from(g.rng.below(1000) as u64),
        _ => F::rand(g.rng),
    }
}

fn gen_sw_affine<P: sw::SWCurveConfig>(g: &mut G<'_>) -> sw::Affine<P> {
    if g.simple {
        return sw::Affine::<P>::identity();
    }
    match g.rng.below(12) {
        0 => sw::Affine::<P>::identity(),
        1 => P::GENERATOR,
        2 => -P::GENERATOR,
        3 if g.invalid_ok => {
            if g.rng.chance(1, 2) {
                // from a small fixed pool, with either sign: several invalid elements of one
                // container can then cancel (P and -P), which defeats aggregate validity checks
                let k = g.rng.below(3) as u64;
                let mut r = simkit::Rng::new(0x1badc0de + k);
                let mut gg = G { rng: &mut r, simple: false, budget: 0, invalid_ok: true, huge: false };
                let p = sw_random_curve_point::<P>(&mut gg);
                if g.rng.chance(1, 2) {
                    p
                } else {
                    sw::Affine::<P>::new_unchecked(p.x, -p.y)
                }
            } else {
                sw_random_curve_point::<P>(g)
            }
        },
        10 if g.invalid_ok && !P::cofactor_is_one() => sw_cofactor_part_point::<P>(g),
        7 | 8 | 9 if g.invalid_ok && !P::COFACTOR.is_empty() && P::COFACTOR[0] & 1 == 0 => {
            sw_two_torsion_point::<P>(g).unwrap_or_else(|| sw_random_curve_point::<P>(g))
        },
        // curve points whose y has a zero coordinate (x^3+b in the prime subfield): sign-selection ties
        4 | 5 | 6 if g.invalid_ok && P::BaseField::extension_degree() == 2 => match sw_x_with_rhs_in_subfield::<P>(g) {
            Some(x) => {
                // y is built from a square root in the PRIME field (not the extension's sqrt, which
                // is part of what decompression exercises): rhs = c0 in Fp; y = (sqrt c0, 0) when c0
                // is a residue of Fp, else (0, sqrt(c0 / beta))
                type Bp<P> = <<P as CurveConfig>::BaseField as Field>::BasePrimeField;
                let rhs = x.square() * x + P::COEFF_A * x + P::COEFF_B;
                let c0 = rhs.to_base_prime_field_elements().next().unwrap();
                let mk = |a: Bp<P>, b: Bp<P>| P::BaseField::from_base_prime_field_elems([a, b]).unwrap();
                let u = mk(Bp::<P>::zero(), Bp::<P>::ONE);
                let beta = u.square().to_base_prime_field_elements().next().unwrap();
                let y = match c0.sqrt() {
                    Some(r) => Some(mk(r, Bp::<P>::zero())),
                    None => beta.inverse().and_then(|bi| (c0 * bi).sqrt()).map(|r| mk(Bp::<P>::zero(), r)),
                };
                match y {
                    Some(y) if y.square() == rhs => sw::Affine::<P>::new_unchecked(x, if g.rng.chance(1, 2) { y } else { -y }),
                    _ => sw_random_curve_point::<P>(g),
                }
            },
            None => sw_random_curve_point::<P>(g),
        },
        _ => (P::GENERATOR * gen_scalar::<P::ScalarField>(g)).into_affine(),
    }
}

impl<P: sw::SWCurveConfig> Sem for sw::Affine<P> {
    fn gen(g: &mut G<'_>) -> Self {
        gen_sw_affine::<P>(g)
    }
    fn same(&self, o: &Self) -> bool {
        (self.infinity && o.infinity) || (!self.infinity && !o.infinity && self.x == o.x && self.y == o.y)
    }
    fn ref_valid(&self, v: bool) -> bool {
        !v || self.infinity || ref_sw_valid::<P>(&self.x, &self.y)
    }
    std_io!();
}

impl<P: sw::SWCurveConfig> Sem for sw::Projective<P> {
    fn gen(g: &mut G<'_>) -> Self {
        let a = gen_sw_affine::<P>(g);
        let p: Self = a.into();
        if !g.simple && g.rng.chance(1, 2) {
            // a non-normalised representative of the same point
            let q = P::GENERATOR * P::ScalarField::from(g.rng.range(1, 50) as u64);
            (p + q) - q
        } else {
            p
        }
    }
    // compared and judged on the raw Jacobian coordinates (X/Z^2, Y/Z^3), not through the
    // library's own normalisation, which is part of what serialization exercises
    fn same(&self, o: &Self) -> bool {
        let (a, b) = (self, o);
        if a.z.is_zero() || b.z.is_zero() {
            return a.z.is_zero() && b.z.is_zero();
        }
        let (az2, bz2) = (a.z.square(), b.z.square());
        a.x * bz2 == b.x * az2 && a.y * bz2 * b.z == b.y * az2 * a.z
    }
    fn ref_valid(&self, v: bool) -> bool {
        if !v || self.z.is_zero() {
            return true;
        }
        let zi = self.z.inverse().unwrap();
        let zi2 = zi.square();
        ref_sw_valid::<P>(&(self.x * zi2), &(self.y * zi2 * zi))
    }
    std_io!();
}

fn sw_model<P: sw::SWCurveConfig>(bytes: &[u8], c: Compress) -> Model {
    match c {
        Compress::Yes => match model_field::<P::BaseField>(bytes, 2) {
            Dec::Short => Model::Short,
            Dec::Reject(w) => Model::Reject(w),
            Dec::Unknown => Model::Unknown,
            Dec::Ok((x, flags, n)) => {
                let neg = flags & 0x80 != 0;
                let inf = flags & 0x40 != 0;
                if neg && inf {
                    return Model::Reject("both sign and infinity flags set");
                }
                if inf {
                    return Model::Accept { consumed: n, valid: true, what: "identity" };
                }
                let rhs = x.square() * x + P::COEFF_A * x + P::COEFF_B;
                match rhs.sqrt() {
                    None => Model::Reject("x has no point on the curve"),
                    Some(y) => {
                        let ny = -y;
                        let (small, large) = if lex_gt(&y, &ny) { (ny, y) } else { (y, ny) };
                        let y = if neg { large } else { small };
                        let valid = ref_sw_valid::<P>(&x, &y);
                        Model::Accept { consumed: n, valid, what: if valid { "valid point" } else { "on curve, outside subgroup" } }
                    },
                }
            },
        },
        Compress::No => {
            let xs = field_size::<P::BaseField>(0);
            let x = match model_field::<P::BaseField>(bytes, 0) {
                Dec::Short => return Model::Short,
                Dec::Reject(w) => return Model::Reject(w),
                Dec::Unknown => return Model::Unknown,
                Dec::Ok((x, _, _)) => x,
            };
            match model_field::<P::BaseField>(&bytes[xs..], 2) {
                Dec::Short => Model::Short,
                Dec::Reject(w) => Model::Reject(w),
                Dec::Unknown => Model::Unknown,
                Dec::Ok((y, flags, n)) => {
                    let neg = flags & 0x80 != 0;
                    let inf = flags & 0x40 != 0;
                    if neg && inf {
                        return Model::Reject("both sign and infinity flags set");
                    }
                    if inf {
                        return Model::Accept { consumed: xs + n, valid: true, what: "identity" };
                    }
                    let on = ref_sw_on_curve::<P>(&x, &y);
                    let valid = on && ref_sw_valid::<P>(&x, &y);
                    Model::Accept {
                        consumed: xs + n,
                        valid,
                        what: if valid {
                            "valid point"
                        } else if on {
                            "on curve, outside subgroup"
                        } else {
                            "off curve"
                        },
                    }
                },
            }
        },
    }
}

fn sw_flags_of<F: Field>(y: &F) -> u8 {
    if lex_gt(y, &-*y) {
        0x80
    } else {
        0
    }
}

fn sw_encode<P: sw::SWCurveConfig>(x: &P::BaseField, y: &P::BaseField, flags: u8, c: Compress) -> Vec<u8> {
    match c {
        Compress::Yes => enc_field(x, flags, 2),
        Compress::No => {
            let mut e = enc_field(x, 0, 0);
            e.extend_from_slice(&enc_field(y, flags, 2));
            e
        },
    }
}

fn sw_foreign<P: sw::SWCurveConfig>(g: &mut G<'_>, c: Compress) -> Option<(Vec<u8>, &'static str)> {
    match g.rng.below(11) {
        10 => {
            let t = sw_two_torsion_point::<P>(g)?;
            let f = if g.rng.chance(1, 2) { 0x80 } else { 0 };
            Some((sw_encode::<P>(&t.x, &t.y, f, c), "point of order two (y = 0)"))
        },
        9 => {
            // the image of a valid point under (x, y) -> (l^2 x, l^3 y): a point of the isomorphic
            // curve y^2 = x^3 + a l^4 x + b l^6 with the same group structure - off this curve,
            // but indistinguishable from a subgroup point to any test that assumes the equation
            let p = (P::GENERATOR * gen_scalar::<P::ScalarField>(g)).into_affine();
            let l = loop {
                let l = P::BaseField::from(g.rng.range(2, 1000) as u64);
                if l.square() * l.square() * l.square() != P::BaseField::ONE || !P::COEFF_A.is_zero() {
                    break l;
                }
            };
            let (x, y) = (p.x * l.square(), p.y * l.square() * l);
            Some((sw_encode::<P>(&x, &y, sw_flags_of(&y), Compress::No), "valid point moved to an isomorphic curve (uncompressed layout)"))
        },
        8 => {
            let x = sw_x_with_rhs_in_subfield::<P>(g)?;
            let f = if g.rng.chance(1, 2) { 0x80 } else { 0 };
            Some((enc_field(&x, f, 2), "x with x^3+b in the prime subfield (compressed layout)"))
        },
        0 | 1 => {
            // on the curve, (almost surely) outside the subgroup when cofactor != 1
            let p = sw_random_curve_point::<P>(g);
            Some((sw_encode::<P>(&p.x, &p.y, sw_flags_of(&p.y), c), "random curve point"))
        },
        2 => {
            // off the curve (only expressible uncompressed)
            let x = P::BaseField::rand(g.rng);
            let y = P::BaseField::rand(g.rng);
            Some((sw_encode::<P>(&x, &y, sw_flags_of(&y), Compress::No), "off-curve (uncompressed layout)"))
        },
        3 => {
            let p = (P::GENERATOR * gen_scalar::<P::ScalarField>(g)).into_affine();
            Some((sw_encode::<P>(&p.x, &p.y, 0xc0, c), "both flag bits set"))
        },
        4 => {
            let p = (P::GENERATOR * gen_scalar::<P::ScalarField>(g)).into_affine();
            Some((sw_encode::<P>(&p.x, &p.y, 0x40, c), "infinity flag with non-zero coordinates"))
        },
        5 => {
            // valid point with y replaced by y+1 (off curve), uncompressed
            let p = (P::GENERATOR * gen_scalar::<P::ScalarField>(g)).into_affine();
            let y = p.y + P::BaseField::ONE;
            Some((sw_encode::<P>(&p.x, &y, sw_flags_of(&y), Compress::No), "valid x, wrong y"))
        },
        6 => {
            // x with no point on the curve, compressed
            loop {
                let x = P::BaseField::rand(g.rng);
                let rhs = x.square() * x + P::COEFF_A * x + P::COEFF_B;
                if rhs.sqrt().is_none() {
                    return Some((enc_field(&x, 0, 2), "x without square root (compressed layout)"));
                }
            }
        },
        _ => {
            // x coordinate integer >= p
            let p = (P::GENERATOR * gen_scalar::<P::ScalarField>(g)).into_affine();
            let mut e = sw_encode::<P>(&p.x, &p.y, sw_flags_of(&p.y), c);
            let fb = prime_bytes::<<P::BaseField as Field>::BasePrimeField>();
            let m = modulus::<<P::BaseField as Field>::BasePrimeField>();
            let cur = BigUint::from_bytes_le(&e[..fb]);
            // only when flags do not share these bytes
            if field_size::<P::BaseField>(0) == fb && matches!(c, Compress::Yes) {
                return None;
            }
            let raw = enc_raw(&(cur + m), fb)?;
            e[..fb].copy_from_slice(&raw);
            Some((e, "x coordinate integer >= p"))
        },
    }
}

impl<P: sw::SWCurveConfig> Wire for sw::Affine<P> {
    fn model(bytes: &[u8], c: Compress) -> Model {
        sw_model::<P>(bytes, c)
    }
    fn foreign(g: &mut G<'_>, c: Compress) -> Option<(Vec<u8>, &'static str)> {
        sw_foreign::<P>(g, c)
    }
}
impl<P: sw::SWCurveConfig> Wire for sw::Projective<P> {
    fn model(bytes: &[u8], c: Compress) -> Model {
        sw_model::<P>(bytes, c)
    }
    fn foreign(g: &mut G<'_>, c: Compress) -> Option<(Vec<u8>, &'static str)> {
        sw_foreign::<P>(g, c)
    }
}

// ------------------------------------------------------------ reference group law (TE)

#[derive(Clone, Copy)]
struct Proj<F: Field> {
    x: F,
    y: F,
    z: F,
}

/// add-2008-bbjlp (unified).  Returns None when the formula degenerates (Z3 = 0),
/// which can only happen when the law is not complete for this curve.
fn te_add<P: te::TECurveConfig>(p: &Proj<P::BaseField>, q: &Proj<P::BaseField>) -> Option<Proj<P::BaseField>> {
    let a = p.z * q.z;
    let b = a.square();
    let c = p.x * q.x;
    let d = p.y * q.y;
    let e = P::COEFF_D * c * d;
    let f = b - e;
    let gg = b + e;
    let x3 = a * f * ((p.x + p.y) * (q.x + q.y) - c - d);
    let y3 = a * gg * (d - P::COEFF_A * c);
    let z3 = f * gg;
    if z3.is_zero() {
        return None;
    }
    Some(Proj { x: x3, y: y3, z: z3 })
}

/// k·(x,y); Some(None) … never; returns Ok(is_identity) or Err(()) when undecidable.
pub fn ref_te_mul_is_identity<P: te::TECurveConfig>(x: P::BaseField, y: P::BaseField, k: &BigUint) -> Option<bool> {
    let base = Proj { x, y, z: P::BaseField::ONE };
    let mut acc = Proj { x: P::BaseField::ZERO, y: P::BaseField::ONE, z: P::BaseField::ONE };
    for i in (0..k.bits()).rev() {
        acc = te_add::<P>(&acc, &acc)?;
        if k.bit(i) {
            acc = te_add::<P>(&acc, &base)?;
        }
    }
    Some(acc.x.is_zero() && acc.y == acc.z)
}

pub fn ref_te_on_curve<P: te::TECurveConfig>(x: &P::BaseField, y: &P::BaseField) -> bool {
    let x2 = x.square();
    let y2 = y.square();
    P::COEFF_A * x2 + y2 == P::BaseField::ONE + P::COEFF_D * x2 * y2
}

/// Some(valid) or None when the reference law cannot decide.
pub fn ref_te_valid<P: te::TECurveConfig>(x: &P::BaseField, y: &P::BaseField) -> Option<bool> {
    if !ref_te_on_curve::<P>(x, y) {
        return Some(false);
    }
    ref_te_mul_is_identity::<P>(*x, *y, &scalar_modulus::<P>())
}

/// k*(x,y) in affine coordinates by the reference law; None when the law degenerates
/// (incomplete curve: the result is a point at infinity of the twisted model) .
fn ref_te_mul_affine<P: te::TECurveConfig>(x: P::BaseField, y: P::BaseField, k: &BigUint) -> Option<(P::BaseField, P::BaseField)> {
    let base = Proj { x, y, z: P::BaseField::ONE };
    let mut acc = Proj { x: P::BaseField::ZERO, y: P::BaseField::ONE, z: P::BaseField::ONE };
    for i in (0..k.bits()).rev() {
        acc = te_add::<P>(&acc, &acc)?;
        if k.bit(i) {
            acc = te_add::<P>(&acc, &base)?;
        }
    }
    let zi = acc.z.inverse()?;
    Some((acc.x * zi, acc.y * zi))
}

/// r * Q for a random curve point Q (reference arithmetic): a point of small order, when it is affine.
fn te_small_order_point<P: te::TECurveConfig>(g: &mut G<'_>) -> Option<te::Affine<P>> {
    let q = te_random_curve_point::<P>(g);
    let (x, y) = ref_te_mul_affine::<P>(q.x, q.y, &scalar_modulus::<P>())?;
    if ref_te_on_curve::<P>(&x, &y) {
        Some(te::Affine::<P>::new_unchecked(x, y))
    } else {
        None
    }
}

fn te_random_curve_point<P: te::TECurveConfig>(g: &mut G<'_>) -> te::Affine<P> {
    loop {
        let y = P::BaseField::rand(g.rng);
        let y2 = y.square();
        let den = P::COEFF_A - P::COEFF_D * y2;
        let Some(di) = den.inverse() else { continue };
        if let Some(x) = ((P::BaseField::ONE - y2) * di).sqrt() {
            assert!(x.square() == (P::BaseField::ONE - y2) * di, "library sqrt returned a value whose square is not the input");
            let x = if g.rng.chance(1, 2) { x } else { -x };
            return te::Affine::<P>::new_unchecked(x, y);
        }
    }
}

fn gen_te_affine<P: te::TECurveConfig>(g: &mut G<'_>) -> te::Affine<P> {
    if g.simple {
        return te::Affine::<P>::zero();
    }
    match g.rng.below(12) {
        0 => te::Affine::<P>::zero(),
        1 => P::GENERATOR,
        2 => -P::GENERATOR,
        3 if g.invalid_ok => {
            if g.rng.chance(1, 2) {
                let k = g.rng.below(3) as u64;
                let mut r = simkit::Rng::new(0x1badc0de + k);
                let mut gg = G { rng: &mut r, simple: false, budget: 0, invalid_ok: true, huge: false };
                let p = te_random_curve_point::<P>(&mut gg);
                if g.rng.chance(1, 2) {
                    p
                } else {
                    te::Affine::<P>::new_unchecked(-p.x, p.y)
                }
            } else {
                te_random_curve_point::<P>(g)
            }
        },
        // the point of order two: x = -x tie, outside the subgroup
        4 if g.invalid_ok => te::Affine::<P>::new_unchecked(P::BaseField::ZERO, -P::BaseField::ONE),
        // r * Q: a point of small order (2, 4, 8: y = 0 or x = 0 among them)
        5 | 6 if g.invalid_ok => te_small_order_point::<P>(g).unwrap_or_else(|| te_random_curve_point::<P>(g)),
        _ => (P::GENERATOR * gen_scalar::<P::ScalarField>(g)).into_affine(),
    }
}

impl<P: te::TECurveConfig> Sem for te::Affine<P> {
    fn gen(g: &mut G<'_>) -> Self {
        gen_te_affine::<P>(g)
    }
    fn same(&self, o: &Self) -> bool {
        self.x == o.x && self.y == o.y
    }
    fn ref_valid(&self, v: bool) -> bool {
        // undecidable by the reference law => do not judge (treated as the library says)
        !v || ref_te_valid::<P>(&self.x, &self.y).unwrap_or_else(|| {
            use ark_serialize::Valid;
            self.check().is_ok()
        })
    }
    std_io!();
}

impl<P: te::TECurveConfig> Sem for te::Projective<P> {
    fn gen(g: &mut G<'_>) -> Self {
        let a = gen_te_affine::<P>(g);
        let p: Self = a.into();
        if !g.simple && g.rng.chance(1, 2) {
            let q = P::GENERATOR * P::ScalarField::from(g.rng.range(1, 50) as u64);
            (p + q) - q
        } else {
            p
        }
    }
    // compared and judged on the raw projective coordinates (X/Z, Y/Z)
    fn same(&self, o: &Self) -> bool {
        self.x * o.z == o.x * self.z && self.y * o.z == o.y * self.z
    }
    fn ref_valid(&self, v: bool) -> bool {
        if !v {
            return true;
        }
        match self.z.inverse() {
            Some(zi) => te::Affine::<P>::new_unchecked(self.x * zi, self.y * zi).ref_valid(v),
            None => false,
        }
    }
    std_io!();
}

fn te_model<P: te::TECurveConfig>(bytes: &[u8], c: Compress) -> Model {
    match c {
        Compress::Yes => match model_field::<P::BaseField>(bytes, 1) {
            Dec::Short => Model::Short,
            Dec::Reject(w) => Model::Reject(w),
            Dec::Unknown => Model::Unknown,
            Dec::Ok((y, flags, n)) => {
                let neg = flags & 0x80 != 0;
                let y2 = y.square();
                let den = P::COEFF_A - P::COEFF_D * y2;
                let Some(di) = den.inverse() else { return Model::Reject("denominator zero") };
                match ((P::BaseField::ONE - y2) * di).sqrt() {
                    None => Model::Reject("y has no point on the curve"),
                    Some(x) => {
                        let nx = -x;
                        let (small, large) = if lex_gt(&x, &nx) { (nx, x) } else { (x, nx) };
                        let x = if neg { large } else { small };
                        match ref_te_valid::<P>(&x, &y) {
                            None => Model::Unknown,
                            Some(valid) => Model::Accept {
                                consumed: n,
                                valid,
                                what: if valid { "valid point" } else { "on curve, outside subgroup" },
                            },
                        }
                    },
                }
            },
        },
        Compress::No => {
            let xs = field_size::<P::BaseField>(0);
            let x = match model_field::<P::BaseField>(bytes, 0) {
                Dec::Short => return Model::Short,
                Dec::Reject(w) => return Model::Reject(w),
                Dec::Unknown => return Model::Unknown,
                Dec::Ok((x, _, _)) => x,
            };
            match model_field::<P::BaseField>(&bytes[xs..], 0) {
                Dec::Short => Model::Short,
                Dec::Reject(w) => Model::Reject(w),
                Dec::Unknown => Model::Unknown,
                Dec::Ok((y, _, n)) => {
                    let on = ref_te_on_curve::<P>(&x, &y);
                    match ref_te_valid::<P>(&x, &y) {
                        None => Model::Unknown,
                        Some(valid) => Model::Accept {
                            consumed: xs + n,
                            valid,
                            what: if valid {
                                "valid point"
                            } else if on {
                                "on curve, outside subgroup"
                            } else {
                                "off curve"
                            },
                        },
                    }
                },
            }
        },
    }
}

fn te_encode<P: te::TECurveConfig>(x: &P::BaseField, y: &P::BaseField, c: Compress) -> Vec<u8> {
    match c {
        Compress::Yes => enc_field(y, if lex_gt(x, &-*x) { 0x80 } else { 0 }, 1),
        Compress::No => {
            let mut e = enc_field(x, 0, 0);
            e.extend_from_slice(&enc_field(y, 0, 0));
            e
        },
    }
}

fn te_foreign<P: te::TECurveConfig>(g: &mut G<'_>, c: Compress) -> Option<(Vec<u8>, &'static str)> {
    match g.rng.below(7) {
        6 => {
            // the exceptional y of decompression: a - d*y^2 = 0 (x^2 would be (1-y^2)/0)
            let di = P::COEFF_D.inverse()?;
            let y = (P::COEFF_A * di).sqrt()?;
            let y = if g.rng.chance(1, 2) { y } else { -y };
            let f = if g.rng.chance(1, 2) { 0x80 } else { 0 };
            Some((enc_field(&y, f, 1), "y with a - d*y^2 = 0 (compressed layout)"))
        },
        0 | 1 => {
            let p = te_random_curve_point::<P>(g);
            Some((te_encode::<P>(&p.x, &p.y, c), "random curve point"))
        },
        2 => {
            let x = P::BaseField::rand(g.rng);
            let y = P::BaseField::rand(g.rng);
            Some((te_encode::<P>(&x, &y, Compress::No), "off-curve (uncompressed layout)"))
        },
        3 => {
            if g.rng.chance(1, 2) {
                Some((te_encode::<P>(&P::BaseField::ZERO, &-P::BaseField::ONE, c), "order-2 point (0,-1)"))
            } else {
                let t = te_small_order_point::<P>(g)?;
                Some((te_encode::<P>(&t.x, &t.y, c), "small-order point r*Q"))
            }
        },
        4 => {
            // a valid point plus the order-2 point: on curve, outside subgroup
            let p = (P::GENERATOR * gen_scalar::<P::ScalarField>(g)).into_affine();
            Some((te_encode::<P>(&-p.x, &-p.y, c), "valid point + (0,-1)"))
        },
        _ => {
            loop {
                let y = P::BaseField::rand(g.rng);
                let y2 = y.square();
                let den = P::COEFF_A - P::COEFF_D * y2;
                let Some(di) = den.inverse() else { continue };
                if ((P::BaseField::ONE - y2) * di).sqrt().is_none() {
                    return Some((enc_field(&y, 0, 1), "y without square root (compressed layout)"));
                }
            }
        },
    }
}

impl<P: te::TECurveConfig> Wire for te::Affine<P> {
    fn model(bytes: &[u8], c: Compress) -> Model {
        te_model::<P>(bytes, c)
    }
    fn foreign(g: &mut G<'_>, c: Compress) -> Option<(Vec<u8>, &'static str)> {
        te_foreign::<P>(g, c)
    }
}
impl<P: te::TECurveConfig> Wire for te::Projective<P> {
    fn model(bytes: &[u8], c: Compress) -> Model {
        te_model::<P>(bytes, c)
    }
    fn foreign(g: &mut G<'_>, c: Compress) -> Option<(Vec<u8>, &'static str)> {
        te_foreign::<P>(g, c)
    }
}

// ------------------------------------------------------------ target group

fn ref_pow<F: Field>(f: &F, k: &BigUint) -> F {
    let mut acc = F::ONE;
    for i in (0..k.bits()).rev() {
        acc = acc.square();
        if k.bit(i) {
            acc *= f;
        }
    }
    acc
}

/// An element of small prime order l of the multiplicative group of `F` (so: outside every
/// subgroup of large prime order r), or None when no listed prime divides q^k - 1.  It is
/// h^j with h = t^((q^k-1)/l) for a FIXED t; h is computed once per (field, l) with the reference
/// exponentiation and cached as bytes (the cache content does not depend on who asks first).
pub fn small_order_elem<F: Field>(g: &mut G<'_>) -> Option<(F, u64)> {
    use std::any::TypeId;
    use std::collections::BTreeMap;
    use std::sync::Mutex;
    static CACHE: Mutex<BTreeMap<(TypeId, u64), Option<Vec<u8>>>> = Mutex::new(BTreeMap::new());
    const PRIMES: [u64; 14] = [2, 3, 5, 7, 11, 13, 17, 19, 23, 29, 31, 37, 41, 43];
    let l = *g.rng.pick(&PRIMES);
    let j = 1 + g.rng.below(l as usize - 1) as u64;
    let key = (TypeId::of::<F>(), l);
    let cached = CACHE.lock().unwrap().get(&key).cloned();
    let bytes = match cached {
        Some(b) => b,
        None => {
            let q = modulus::<F::BasePrimeField>();
            let mut n = BigUint::from(1u32);
            for _ in 0..F::extension_degree() {
                n *= &q;
            }
            n -= 1u32;
            let b = if (&n % l).bits() == 0 {
                let e = &n / l;
                let mut r = simkit::Rng::new(0x50a11 ^ l);
                let mut found = None;
                for _ in 0..8 {
                    let t = F::rand(&mut r);
                    if t.is_zero() {
                        continue;
                    }
                    let h = ref_pow(&t, &e);
                    if h != F::ONE {
                        found = Some(enc_field(&h, 0, 0));
                        break;
                    }
                }
                found
            } else {
                None
            };
            CACHE.lock().unwrap().insert(key, b.clone());
            b
        },
    };
    let bytes = bytes?;
    match model_field::<F>(&bytes, 0) {
        Dec::Ok((h, _, _)) => Some((ref_pow(&h, &BigUint::from(j)), l)),
        _ => None,
    }
}

impl<E: Pairing> Sem for PairingOutput<E> {
    fn gen(g: &mut G<'_>) -> Self {
        if g.simple {
            return PairingOutput::<E>::zero();
        }
        match g.rng.below(6) {
            0 => PairingOutput::<E>::zero(),
            1 | 2 if g.invalid_ok => {
                if g.rng.chance(1, 3) {
                    // small order, alone or times a genuine output
                    match small_order_elem::<E::TargetField>(g) {
                        Some((h, _)) if g.rng.chance(1, 2) => PairingOutput(h),
                        Some((h, _)) => {
                            let k = gen_scalar::<E::ScalarField>(g);
                            PairingOutput(h * (PairingOutput::<E>::generator() * k).0)
                        },
                        None => PairingOutput(gen_field::<E::TargetField>(g)),
                    }
                } else if g.rng.chance(2, 3) {
                    // a fixed non-member or its inverse (see the note on cancelling elements above)
                    let k = 0u64;
                    let mut r = simkit::Rng::new(0x1badc0de + k);
                    let f = E::TargetField::rand(&mut r);
                    if g.rng.chance(1, 2) {
                        PairingOutput(f)
                    } else {
                        PairingOutput(f.inverse().unwrap_or(f))
                    }
                } else {
                    PairingOutput(gen_field::<E::TargetField>(g))
                }
            },
            _ => {
                let k = gen_scalar::<E::ScalarField>(g);
                PairingOutput::<E>::generator() * k
            },
        }
    }
    fn same(&self, o: &Self) -> bool {
        self.0 == o.0
    }
    fn ref_valid(&self, v: bool) -> bool {
        !v || ref_pow(&self.0, &modulus::<E::ScalarField>()) == E::TargetField::ONE
    }
    std_io!();
}

impl<E: Pairing> Wire for PairingOutput<E> {
    fn model(bytes: &[u8], _c: Compress) -> Model {
        match model_field::<E::TargetField>(bytes, 0) {
            Dec::Short => Model::Short,
            Dec::Reject(w) => Model::Reject(w),
            Dec::Unknown => Model::Unknown,
            Dec::Ok((f, _, n)) => {
                let valid = ref_pow(&f, &modulus::<E::ScalarField>()) == E::TargetField::ONE;
                Model::Accept { consumed: n, valid, what: if valid { "target group element" } else { "outside the order-r subgroup" } }
            },
        }
    }
    fn foreign(g: &mut G<'_>, _c: Compress) -> Option<(Vec<u8>, &'static str)> {
        if g.rng.chance(2, 5) {
            if let Some((h, _)) = small_order_elem::<E::TargetField>(g) {
                return Some((enc_field(&h, 0, 0), "target-field element of small prime order"));
            }
        }
        if g.rng.chance(1, 2) {
            let f: E::TargetField = gen_field(g);
            Some((enc_field(&f, 0, 0), "random target-field element"))
        } else {
            field_foreign::<E::TargetField>(g)
        }
    }
}

// ------------------------------------------------------------ ZCash-style format (curves/bls12_381)
//
// The ark-bls12-381 crate overrides the point (de)serializers with the format
// of the `zkcrypto/bls12_381` crate: big-endian coordinates, highest extension
// coordinate first, three flag bits in the top bits of the first byte
// (bit 7 compressed, bit 6 infinity, bit 5 "y is the lexicographically largest").

fn be_coords<F: Field>(v: &F) -> Vec<u8> {
    let fb = prime_bytes::<F::BasePrimeField>();
    let mut out = vec![];
    let elems: Vec<F::BasePrimeField> = v.to_base_prime_field_elements().collect();
    for e in elems.iter().rev() {
        let mut b = e.into_bigint().to_bytes_be();
        while b.len() < fb {
            b.insert(0, 0);
        }
        let n = b.len();
        out.extend_from_slice(&b[n - fb..]);
    }
    out
}

/// decode one field element (big-endian, highest coordinate first); `mask_first` clears the three flag bits
fn be_decode<F: Field>(bytes: &[u8], mask_first: bool) -> Dec<F> {
    let fb = prime_bytes::<F::BasePrimeField>();
    let d = F::extension_degree() as usize;
    if bytes.len() < fb * d {
        return Dec::Short;
    }
    let p = modulus::<F::BasePrimeField>();
    let mut elems = vec![F::BasePrimeField::zero(); d];
    for i in 0..d {
        let mut chunk = bytes[i * fb..(i + 1) * fb].to_vec();
        if i == 0 && mask_first {
            chunk[0] &= 0x1f;
        }
        let v = BigUint::from_bytes_be(&chunk);
        if v >= p {
            return Dec::Reject("coordinate integer >= modulus");
        }
        elems[d - 1 - i] = F::BasePrimeField::from(v);
    }
    Dec::Ok(F::from_base_prime_field_elems(elems).unwrap())
}

pub fn zcash_model<P: sw::SWCurveConfig>(bytes: &[u8], c: Compress) -> Model {
    let fs = prime_bytes::<<P::BaseField as Field>::BasePrimeField>() * P::BaseField::extension_degree() as usize;
    let need = if matches!(c, Compress::Yes) { fs } else { 2 * fs };
    if bytes.len() < need {
        return Model::Short;
    }
    let comp = bytes[0] & 0x80 != 0;
    let inf = bytes[0] & 0x40 != 0;
    let sort = bytes[0] & 0x20 != 0;
    if sort && (!comp || inf) {
        return Model::Reject("sort flag without compression or with infinity");
    }
    if comp != matches!(c, Compress::Yes) {
        return Model::Reject("compression flag does not match the mode");
    }
    if inf {
        let mut b = bytes[..need].to_vec();
        b[0] &= 0x1f;
        return if b.iter().all(|x| *x == 0) {
            Model::Accept { consumed: need, valid: true, what: "identity" }
        } else {
            Model::Reject("infinity flag with non-zero coordinates")
        };
    }
    let x: P::BaseField = match be_decode(&bytes[..fs], true) {
        Dec::Ok(x) => x,
        Dec::Reject(w) => return Model::Reject(w),
        _ => return Model::Short,
    };
    if comp {
        let rhs = x.square() * x + P::COEFF_A * x + P::COEFF_B;
        match rhs.sqrt() {
            None => Model::Reject("x has no point on the curve"),
            Some(y) => {
                let ny = -y;
                let (small, large) = if lex_gt(&y, &ny) { (ny, y) } else { (y, ny) };
                let y = if sort { large } else { small };
                let valid = ref_sw_valid::<P>(&x, &y);
                Model::Accept { consumed: need, valid, what: if valid { "valid point" } else { "on curve, outside subgroup" } }
            },
        }
    } else {
        let y: P::BaseField = match be_decode(&bytes[fs..2 * fs], false) {
            Dec::Ok(y) => y,
            Dec::Reject(w) => return Model::Reject(w),
            _ => return Model::Short,
        };
        let on = ref_sw_on_curve::<P>(&x, &y);
        let valid = on && ref_sw_valid::<P>(&x, &y);
        Model::Accept {
            consumed: need,
            valid,
            what: if valid {
                "valid point"
            } else if on {
                "on curve, outside subgroup"
            } else {
                "off curve"
            },
        }
    }
}

fn zcash_encode<P: sw::SWCurveConfig>(x: &P::BaseField, y: &P::BaseField, flags: u8, c: Compress) -> Vec<u8> {
    let mut e = be_coords(x);
    if matches!(c, Compress::No) {
        e.extend_from_slice(&be_coords(y));
    }
    e[0] |= flags;
    e
}

pub fn zcash_foreign<P: sw::SWCurveConfig>(g: &mut G<'_>, c: Compress) -> Option<(Vec<u8>, &'static str)> {
    let cbit = if matches!(c, Compress::Yes) { 0x80u8 } else { 0 };
    let sortbit = |y: &P::BaseField| if matches!(c, Compress::Yes) && lex_gt(y, &-*y) { 0x20u8 } else { 0 };
    match g.rng.below(12) {
        10 | 11 => {
            let p = (P::GENERATOR * gen_scalar::<P::ScalarField>(g)).into_affine();
            let l = loop {
                let l = P::BaseField::from(g.rng.range(2, 1000) as u64);
                if l.square() * l.square() * l.square() != P::BaseField::ONE || !P::COEFF_A.is_zero() {
                    break l;
                }
            };
            let (x, y) = (p.x * l.square(), p.y * l.square() * l);
            Some((zcash_encode::<P>(&x, &y, 0, Compress::No), "valid point moved to an isomorphic curve (uncompressed layout)"))
        },
        9 => {
            let x = sw_x_with_rhs_in_subfield::<P>(g)?;
            let f = if g.rng.chance(1, 2) { 0xa0 } else { 0x80 };
            Some((zcash_encode::<P>(&x, &x, f, Compress::Yes), "x with x^3+b in the prime subfield (compressed layout)"))
        },
        0 | 1 => {
            let p = sw_random_curve_point::<P>(g);
            Some((zcash_encode::<P>(&p.x, &p.y, cbit | sortbit(&p.y), c), "random curve point"))
        },
        2 | 3 => {
            let x = P::BaseField::rand(g.rng);
            let y = P::BaseField::rand(g.rng);
            Some((zcash_encode::<P>(&x, &y, 0, Compress::No), "off-curve (uncompressed layout)"))
        },
        4 => {
            // small-order points of other curves y^2 = x^3 + b': x = 0 (order 3 there)
            let y = P::BaseField::from(g.rng.range(1, 9) as u64);
            Some((zcash_encode::<P>(&P::BaseField::ZERO, &y, 0, Compress::No), "off-curve point with x = 0 (uncompressed layout)"))
        },
        5 => {
            let p = (P::GENERATOR * gen_scalar::<P::ScalarField>(g)).into_affine();
            let y = p.y + P::BaseField::ONE;
            Some((zcash_encode::<P>(&p.x, &y, 0, Compress::No), "valid x, wrong y"))
        },
        6 => {
            let p = (P::GENERATOR * gen_scalar::<P::ScalarField>(g)).into_affine();
            let f = *g.rng.pick(&[0x20u8, 0x60, 0xe0, 0x40, 0xc0, 0xa0, 0x80, 0x00]);
            Some((zcash_encode::<P>(&p.x, &p.y, f, c), "arbitrary flag combination on a valid point"))
        },
        7 => {
            loop {
                let x = P::BaseField::rand(g.rng);
                let rhs = x.square() * x + P::COEFF_A * x + P::COEFF_B;
                if rhs.sqrt().is_none() {
                    return Some((zcash_encode::<P>(&x, &x, 0x80, Compress::Yes), "x without square root (compressed layout)"));
                }
            }
        },
        _ => {
            // valid point (must be accepted in the matching mode)
            let p = (P::GENERATOR * gen_scalar::<P::ScalarField>(g)).into_affine();
            Some((zcash_encode::<P>(&p.x, &p.y, cbit | sortbit(&p.y), c), "valid point"))
        },
    }
}

// ------------------------------------------------------------ wire models for the primitive "malformed input" clauses of C18

fn model_bool(bytes: &[u8]) -> Model {
    match bytes.first() {
        None => Model::Short,
        Some(0) | Some(1) => Model::Accept { consumed: 1, valid: true, what: "boolean" },
        Some(_) => Model::Reject("invalid boolean byte"),
    }
}

impl Wire for bool {
    fn model(bytes: &[u8], _c: Compress) -> Model {
        model_bool(bytes)
    }
    fn foreign(g: &mut G<'_>, _c: Compress) -> Option<(Vec<u8>, &'static str)> {
        Some((vec![g.rng.range(2, 255) as u8], "boolean byte 2..255"))
    }
}

impl Wire for Option<bool> {
    fn model(bytes: &[u8], _c: Compress) -> Model {
        match model_bool(bytes) {
            Model::Accept { .. } if bytes[0] == 0 => Model::Accept { consumed: 1, valid: true, what: "None" },
            Model::Accept { .. } => match model_bool(&bytes[1..]) {
                Model::Accept { .. } => Model::Accept { consumed: 2, valid: true, what: "Some(bool)" },
                m => m,
            },
            m => m,
        }
    }
    fn foreign(g: &mut G<'_>, _c: Compress) -> Option<(Vec<u8>, &'static str)> {
        if g.rng.chance(1, 2) {
            Some((vec![g.rng.range(2, 255) as u8, g.rng.below(2) as u8], "option tag 2..255"))
        } else {
            Some((vec![1, g.rng.range(2, 255) as u8], "Some(boolean byte 2..255)"))
        }
    }
}

impl Wire for Vec<bool> {
    fn model(bytes: &[u8], _c: Compress) -> Model {
        if bytes.len() < 8 {
            return Model::Short;
        }
        let n = u64::from_le_bytes(bytes[..8].try_into().unwrap());
        if (bytes.len() as u64 - 8) < n {
            return Model::Short;
        }
        for i in 0..n as usize {
            if bytes[8 + i] > 1 {
                return Model::Reject("invalid boolean byte");
            }
        }
        Model::Accept { consumed: 8 + n as usize, valid: true, what: "Vec<bool>" }
    }
    fn foreign(g: &mut G<'_>, _c: Compress) -> Option<(Vec<u8>, &'static str)> {
        let n = g.rng.range(1, 20);
        let mut b = (n as u64).to_le_bytes().to_vec();
        b.extend((0..n).map(|_| g.rng.below(2) as u8));
        let pos = 8 + g.rng.below(n);
        b[pos] = g.rng.range(2, 255) as u8;
        Some((b, "one element byte 2..255"))
    }
}

impl Wire for String {
    fn model(bytes: &[u8], _c: Compress) -> Model {
        if bytes.len() < 8 {
            return Model::Short;
        }
        let n = u64::from_le_bytes(bytes[..8].try_into().unwrap());
        if (bytes.len() as u64 - 8) < n {
            return Model::Short;
        }
        match std::str::from_utf8(&bytes[8..8 + n as usize]) {
            Ok(_) => Model::Accept { consumed: 8 + n as usize, valid: true, what: "UTF-8 string" },
            Err(_) => Model::Reject("invalid UTF-8"),
        }
    }
    fn foreign(g: &mut G<'_>, _c: Compress) -> Option<(Vec<u8>, &'static str)> {
        let bad: &[&[u8]] = &[&[0xff], &[0xc0, 0x80], &[0xe2, 0x82], &[0xed, 0xa0, 0x80], &[0xf8, 0x88, 0x80, 0x80, 0x80], &[0x80], &[0xf4, 0x90, 0x80, 0x80]];
        let pre = g.rng.range(0, 6);
        let mut body: Vec<u8> = (0..pre).map(|_| b'a' + g.rng.below(26) as u8).collect();
        let pick: &[u8] = bad[g.rng.below(bad.len())];
        body.extend_from_slice(pick);
        if g.rng.chance(1, 2) {
            body.extend_from_slice(b"xyz");
        }
        let mut b = (body.len() as u64).to_le_bytes().to_vec();
        b.extend(body);
        Some((b, "invalid UTF-8 with a correct length prefix"))
    }
}
