//! Catalogue entries from /repo/curves (added incrementally).
use crate::catalogue::Entry;
pub fn more() -> Vec<Entry> {
    vec![]
}
