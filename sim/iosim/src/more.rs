//! Catalogue entries from /repo/curves, harness-declared one-limb fields that
//! fill the remaining spare-bit classes, and ark-poly's derive users.
use crate::algebra::{zcash_foreign, zcash_model, Wire};
use crate::catalogue::Entry;
use crate::sem::{Sem, G};
use crate::sim::{execute, gen_plan, show_values, Hooks};
use crate::std_io;
use ark_ff::fields::{Fp64, MontBackend, MontConfig};
use ark_poly::univariate::{DensePolynomial, SparsePolynomial};
use ark_poly::{
    DenseMultilinearExtension, EvaluationDomain, Evaluations, GeneralEvaluationDomain, Radix2EvaluationDomain,
    SparseMultilinearExtension,
};

macro_rules! small_field {
    ($cfg:ident, $ty:ident, $modulus:literal, $gen:literal) => {
        #[derive(MontConfig)]
        #[modulus = $modulus]
        #[generator = $gen]
        pub struct $cfg;
        pub type $ty = Fp64<MontBackend<$cfg, 1>>;
    };
}
small_field!(F57Config, F57, "144115188075855859", "2");
small_field!(F58Config, F58, "288230376151711717", "6");
small_field!(F59Config, F59, "576460752303423433", "5");
small_field!(F60Config, F60, "1152921504606846883", "2");
small_field!(F61Config, F61, "2305843009213693951", "37");
small_field!(F62Config, F62, "4611686018427387847", "6");
small_field!(F63Config, F63, "9223372036854775783", "3");
small_field!(F64Config, F64, "18446744073709551557", "2");

const F: &[&str] = &["C09", "C10"];
const C18: &[&str] = &["C18"];

fn w<T: Wire>(name: &'static str, props: &'static [&'static str], weight: u32, budget: usize) -> Entry {
    Entry {
        name,
        props,
        weight,
        hooks: Hooks { model: Some(T::model), foreign: Some(T::foreign), zst_elems: false, budget, fixed_size: true, bulk: false },
        gen: gen_plan::<T>,
        exec: execute::<T>,
        show: show_values::<T>,
    }
}
/// entry with explicitly supplied wire model (crates that override the point format)
fn wz<T: Sem>(
    name: &'static str,
    props: &'static [&'static str],
    weight: u32,
    model: crate::sim::ModelFn,
    foreign: crate::sim::ForeignFn,
) -> Entry {
    Entry {
        name,
        props,
        weight,
        hooks: Hooks { model: Some(model), foreign: Some(foreign), zst_elems: false, budget: 1, fixed_size: true, bulk: false },
        gen: gen_plan::<T>,
        exec: execute::<T>,
        show: show_values::<T>,
    }
}
fn e<T: Sem>(name: &'static str, props: &'static [&'static str], weight: u32, budget: usize) -> Entry {
    Entry {
        name,
        props,
        weight,
        hooks: Hooks { model: None, foreign: None, zst_elems: false, budget, fixed_size: false, bulk: false },
        gen: gen_plan::<T>,
        exec: execute::<T>,
        show: show_values::<T>,
    }
}

// ---- ark-poly types (users of the derive macros / hand-written impls) ------------------

type Fr = ark_test_curves::bls12_381::Fr;

impl Sem for DensePolynomial<Fr> {
    fn gen(g: &mut G<'_>) -> Self {
        DensePolynomial { coeffs: Vec::<Fr>::gen(g) }
    }
    fn same(&self, o: &Self) -> bool {
        self.coeffs == o.coeffs
    }
    std_io!();
}
impl Sem for SparsePolynomial<Fr> {
    fn gen(g: &mut G<'_>) -> Self {
        let n = g.len();
        let mut deg = 0usize;
        let terms: Vec<(usize, Fr)> = (0..n)
            .map(|_| {
                deg += 1 + g.rng.below(5);
                (deg, Fr::gen(g))
            })
            .collect();
        SparsePolynomial::from_coefficients_vec(terms)
    }
    fn same(&self, o: &Self) -> bool {
        self == o
    }
    std_io!();
}
impl Sem for Radix2EvaluationDomain<Fr> {
    fn gen(g: &mut G<'_>) -> Self {
        let d = Radix2EvaluationDomain::<Fr>::new(1usize << g.rng.below(20)).unwrap();
        if g.rng.chance(1, 2) {
            d
        } else {
            let mut off = Fr::gen(g);
            if off == Fr::from(0u64) {
                off = Fr::from(7u64);
            }
            d.get_coset(off).unwrap()
        }
    }
    fn same(&self, o: &Self) -> bool {
        self == o
    }
    std_io!();
}
impl Sem for GeneralEvaluationDomain<Fr> {
    fn gen(g: &mut G<'_>) -> Self {
        GeneralEvaluationDomain::<Fr>::new(1 + g.rng.below(5000)).unwrap()
    }
    fn same(&self, o: &Self) -> bool {
        self == o
    }
    std_io!();
}
type Fm = ark_test_curves::bn384_small_two_adicity::Fr;

/// over a field with a small subgroup (bn384 Fr: 2^12 * 3^2) the general domain
/// is radix-2 for small sizes and mixed-radix beyond
impl Sem for GeneralEvaluationDomain<Fm> {
    fn gen(g: &mut G<'_>) -> Self {
        let n = *g.rng.pick(&[1usize, 2, 100, 4096, 4097, 5000, 8192, 10000, 12288, 20000, 36864]);
        let d = GeneralEvaluationDomain::<Fm>::new(n).unwrap();
        if g.rng.chance(1, 3) {
            d.get_coset(Fm::from(5u64)).unwrap()
        } else {
            d
        }
    }
    fn same(&self, o: &Self) -> bool {
        self == o
    }
    std_io!();
}
impl Sem for ark_poly::MixedRadixEvaluationDomain<Fm> {
    fn gen(g: &mut G<'_>) -> Self {
        let n = *g.rng.pick(&[1usize, 3, 9, 100, 4097, 6000, 12288, 36864]);
        ark_poly::MixedRadixEvaluationDomain::<Fm>::new(n).unwrap()
    }
    fn same(&self, o: &Self) -> bool {
        self == o
    }
    std_io!();
}
impl Sem for Evaluations<Fm, GeneralEvaluationDomain<Fm>> {
    fn gen(g: &mut G<'_>) -> Self {
        let n = *g.rng.pick(&[2usize, 3, 6, 9, 18, 24]);
        let d = GeneralEvaluationDomain::<Fm>::new(n).unwrap();
        let evals = (0..EvaluationDomain::size(&d)).map(|_| Fm::gen(g)).collect();
        Evaluations::from_vec_and_domain(evals, d)
    }
    fn same(&self, o: &Self) -> bool {
        self == o
    }
    std_io!();
}

impl Sem for Evaluations<Fr, Radix2EvaluationDomain<Fr>> {
    fn gen(g: &mut G<'_>) -> Self {
        let d = Radix2EvaluationDomain::<Fr>::new(1usize << g.rng.below(6)).unwrap();
        let evals = (0..EvaluationDomain::size(&d)).map(|_| Fr::gen(g)).collect();
        Evaluations::from_vec_and_domain(evals, d)
    }
    fn same(&self, o: &Self) -> bool {
        self == o
    }
    std_io!();
}
impl Sem for DenseMultilinearExtension<Fr> {
    fn gen(g: &mut G<'_>) -> Self {
        let nv = g.rng.below(6);
        DenseMultilinearExtension::from_evaluations_vec(nv, (0..1 << nv).map(|_| Fr::gen(g)).collect())
    }
    fn same(&self, o: &Self) -> bool {
        self == o
    }
    std_io!();
}
impl Sem for SparseMultilinearExtension<Fr> {
    fn gen(g: &mut G<'_>) -> Self {
        let nv = 1 + g.rng.below(8);
        let n = g.len().min(1 << nv);
        let ev: Vec<(usize, Fr)> = (0..n).map(|_| (g.rng.below(1 << nv), Fr::gen(g))).collect();
        SparseMultilinearExtension::from_evaluations(nv, &ev)
    }
    fn same(&self, o: &Self) -> bool {
        self == o
    }
    std_io!();
}

pub fn more() -> Vec<Entry> {
    vec![
        // one-limb fields: every spare-bit class 0..7 of the top byte
        w::<F57>("harness F57 (57 bit, 7 spare)", F, 1, 8),
        w::<F58>("harness F58 (58 bit)", F, 1, 8),
        w::<F59>("harness F59 (59 bit)", F, 1, 8),
        w::<F60>("harness F60 (60 bit)", F, 1, 8),
        w::<F61>("harness F61 (61 bit)", F, 1, 8),
        w::<F62>("harness F62 (62 bit)", F, 1, 8),
        w::<F63>("harness F63 (63 bit)", F, 1, 8),
        w::<F64>("harness F64 (64 bit, 0 spare)", F, 2, 8),
        // /repo/curves fields
        w::<ark_bls12_381::Fq>("curves bls12_381::Fq", F, 1, 8),
        w::<ark_bls12_381::Fq12>("curves bls12_381::Fq12", F, 1, 8),
        w::<ark_bls12_377::Fq>("bls12_377::Fq (377 bit)", F, 2, 8),
        w::<ark_bls12_377::Fr>("bls12_377::Fr (253 bit)", F, 2, 8),
        w::<ark_bls12_377::Fq2>("bls12_377::Fq2", F, 1, 8),
        w::<ark_bw6_761::Fq>("bw6_761::Fq (761 bit)", F, 2, 8),
        w::<ark_bw6_761::Fq3>("bw6_761::Fq3", F, 1, 8),
        w::<ark_bw6_761::Fq6>("bw6_761::Fq6", F, 1, 8),
        w::<ark_mnt4_298::Fq>("mnt4_298::Fq (298 bit)", F, 2, 8),
        w::<ark_mnt4_298::Fq2>("mnt4_298::Fq2", F, 1, 8),
        w::<ark_mnt4_298::Fq4>("mnt4_298::Fq4", F, 1, 8),
        w::<ark_mnt6_298::Fq3>("mnt6_298::Fq3", F, 1, 8),
        w::<ark_mnt6_298::Fq6>("mnt6_298::Fq6 (2 over 3)", F, 1, 8),
        w::<ark_secp384r1::Fq>("secp384r1::Fq (384 bit)", F, 2, 8),
        w::<ark_curve25519::Fq>("curve25519::Fq (255 bit)", F, 1, 8),
        w::<ark_pallas::Fq>("pallas::Fq (255 bit)", F, 1, 8),
        // /repo/curves points: short Weierstrass
        // ark-bls12-381 overrides the point format (zkcrypto/ZCash style): own wire model
        wz::<ark_bls12_381::G1Affine>("curves bls12_381::G1Affine", F, 3, zcash_model::<ark_bls12_381::g1::Config>, zcash_foreign::<ark_bls12_381::g1::Config>),
        wz::<ark_bls12_381::G2Affine>("curves bls12_381::G2Affine", F, 3, zcash_model::<ark_bls12_381::g2::Config>, zcash_foreign::<ark_bls12_381::g2::Config>),
        wz::<ark_bls12_381::G1Projective>("curves bls12_381::G1Projective", F, 1, zcash_model::<ark_bls12_381::g1::Config>, zcash_foreign::<ark_bls12_381::g1::Config>),
        wz::<ark_bls12_381::G2Projective>("curves bls12_381::G2Projective", F, 1, zcash_model::<ark_bls12_381::g2::Config>, zcash_foreign::<ark_bls12_381::g2::Config>),
        w::<ark_bls12_377::G1Affine>("bls12_377::G1Affine", F, 2, 1),
        w::<ark_bls12_377::G2Affine>("bls12_377::G2Affine", F, 2, 1),
        w::<ark_bw6_761::G1Affine>("bw6_761::G1Affine", F, 1, 1),
        w::<ark_bw6_761::G2Affine>("bw6_761::G2Affine", F, 1, 1),
        w::<ark_mnt4_298::G1Affine>("mnt4_298::G1Affine", F, 1, 1),
        w::<ark_mnt4_298::G2Affine>("mnt4_298::G2Affine", F, 1, 1),
        w::<ark_mnt6_298::G1Affine>("mnt6_298::G1Affine", F, 1, 1),
        w::<ark_mnt6_298::G2Affine>("mnt6_298::G2Affine", F, 1, 1),
        w::<ark_pallas::Affine>("pallas::Affine", F, 2, 1),
        w::<ark_pallas::Projective>("pallas::Projective", F, 1, 1),
        w::<ark_secp384r1::Affine>("secp384r1::Affine", F, 2, 1),
        w::<ark_grumpkin::Affine>("grumpkin::Affine", F, 1, 1),
        w::<ark_ed_on_bls12_381_bandersnatch::SWAffine>("bandersnatch::SWAffine", F, 1, 1),
        // twisted Edwards (cofactors 4 and 8)
        w::<ark_ed_on_bls12_381::EdwardsAffine>("curves ed_on_bls12_381::EdwardsAffine", F, 2, 1),
        w::<ark_ed_on_bls12_381_bandersnatch::EdwardsAffine>("bandersnatch::EdwardsAffine", F, 2, 1),
        w::<ark_ed_on_bls12_381_bandersnatch::EdwardsProjective>("bandersnatch::EdwardsProjective", F, 1, 1),
        w::<ark_ed_on_bn254::EdwardsAffine>("ed_on_bn254::EdwardsAffine", F, 2, 1),
        w::<ark_ed_on_bls12_377::EdwardsAffine>("ed_on_bls12_377::EdwardsAffine", F, 2, 1),
        w::<ark_ed25519::EdwardsAffine>("ed25519::EdwardsAffine", F, 2, 1),
        w::<ark_ed25519::EdwardsProjective>("ed25519::EdwardsProjective", F, 1, 1),
        w::<ark_ec::pairing::PairingOutput<ark_bn254::Bn254>>("PairingOutput<Bn254>", F, 1, 1),
        // the remaining curve crates
        w::<ark_vesta::Affine>("vesta::Affine", F, 1, 1),
        w::<ark_secp256k1::Affine>("curves secp256k1::Affine", F, 1, 1),
        w::<ark_secq256k1::Affine>("secq256k1::Affine", F, 1, 1),
        w::<ark_secp256r1::Affine>("secp256r1::Affine", F, 1, 1),
        w::<ark_bw6_767::G1Affine>("bw6_767::G1Affine", F, 1, 1),
        w::<ark_bw6_767::G2Affine>("bw6_767::G2Affine", F, 1, 1),
        w::<ark_cp6_782::G1Affine>("cp6_782::G1Affine", F, 1, 1),
        w::<ark_cp6_782::G2Affine>("cp6_782::G2Affine", F, 1, 1),
        w::<ark_mnt4_753::G1Affine>("curves mnt4_753::G1Affine", F, 1, 1),
        w::<ark_mnt4_753::G2Affine>("curves mnt4_753::G2Affine", F, 1, 1),
        w::<ark_mnt6_753::G1Affine>("curves mnt6_753::G1Affine", F, 1, 1),
        w::<ark_mnt6_753::G2Affine>("curves mnt6_753::G2Affine", F, 1, 1),
        w::<ark_bls12_377::G1Projective>("bls12_377::G1Projective", F, 1, 1),
        w::<ark_bn254::G1Projective>("bn254::G1Projective", F, 1, 1),
        w::<ark_ed_on_cp6_782::EdwardsAffine>("ed_on_cp6_782::EdwardsAffine", F, 1, 1),
        w::<ark_ed_on_bw6_761::EdwardsAffine>("ed_on_bw6_761::EdwardsAffine", F, 1, 1),
        w::<ark_ed_on_mnt4_298::EdwardsAffine>("ed_on_mnt4_298::EdwardsAffine", F, 1, 1),
        w::<ark_ed_on_mnt4_753::EdwardsAffine>("ed_on_mnt4_753::EdwardsAffine", F, 1, 1),
        w::<ark_curve25519::EdwardsAffine>("curve25519::EdwardsAffine", F, 1, 1),
        w::<ark_ed_on_bls12_381::SWAffine>("jubjub SWAffine (cofactor 8)", F, 1, 1),
        w::<ark_ec::pairing::PairingOutput<ark_mnt4_298::MNT4_298>>("PairingOutput<MNT4_298>", F, 1, 1),
        w::<ark_ec::pairing::PairingOutput<ark_mnt6_298::MNT6_298>>("PairingOutput<MNT6_298>", F, 1, 1),
        w::<ark_ec::pairing::PairingOutput<ark_bls12_377::Bls12_377>>("PairingOutput<Bls12_377>", F, 1, 1),
        w::<ark_ec::pairing::PairingOutput<ark_bw6_761::BW6_761>>("PairingOutput<BW6_761>", F, 1, 1),
        w::<ark_ec::pairing::PairingOutput<ark_bw6_767::BW6_767>>("PairingOutput<BW6_767>", F, 1, 1),
        w::<ark_ec::pairing::PairingOutput<ark_cp6_782::CP6_782>>("PairingOutput<CP6_782>", F, 1, 1),
        // ark-poly's serializable types
        e::<DensePolynomial<Fr>>("poly DensePolynomial<Fr>", C18, 2, 8),
        e::<SparsePolynomial<Fr>>("poly SparsePolynomial<Fr>", C18, 2, 8),
        e::<Radix2EvaluationDomain<Fr>>("poly Radix2EvaluationDomain<Fr>", C18, 1, 8),
        e::<GeneralEvaluationDomain<Fr>>("poly GeneralEvaluationDomain<Fr>", C18, 1, 8),
        e::<GeneralEvaluationDomain<Fm>>("poly GeneralEvaluationDomain<bn384 Fr> (radix-2 or mixed-radix)", C18, 2, 8),
        e::<ark_poly::MixedRadixEvaluationDomain<Fm>>("poly MixedRadixEvaluationDomain<bn384 Fr>", C18, 1, 8),
        e::<Evaluations<Fm, GeneralEvaluationDomain<Fm>>>("poly Evaluations<bn384 Fr,General>", C18, 1, 8),
        e::<Evaluations<Fr, Radix2EvaluationDomain<Fr>>>("poly Evaluations<Fr,Radix2>", C18, 1, 8),
        e::<DenseMultilinearExtension<Fr>>("poly DenseMultilinearExtension<Fr>", C18, 1, 8),
        e::<SparseMultilinearExtension<Fr>>("poly SparseMultilinearExtension<Fr>", C18, 1, 8),
    ]
}

// ---- the with-flags entry points on their own (fields whose spare bits are fewer than the flag bits) ----

use ark_ec::short_weierstrass::SWFlags;
use ark_ec::twisted_edwards::TEFlags;
use ark_ff::{Field, Fp2, Fp2Config};
use ark_serialize::{
    CanonicalDeserializeWithFlags, CanonicalSerializeWithFlags, Compress, EmptyFlags, Flags, Read, SerializationError,
    Validate, Write,
};

pub trait GenFlags: Flags + Send + Sync + 'static {
    const NAME: &'static str;
    fn draw(rng: &mut simkit::Rng) -> Self;
}
impl GenFlags for SWFlags {
    const NAME: &'static str = "SWFlags";
    fn draw(rng: &mut simkit::Rng) -> Self {
        *rng.pick(&[SWFlags::YIsPositive, SWFlags::YIsNegative, SWFlags::PointAtInfinity])
    }
}
impl GenFlags for TEFlags {
    const NAME: &'static str = "TEFlags";
    fn draw(rng: &mut simkit::Rng) -> Self {
        *rng.pick(&[TEFlags::XIsPositive, TEFlags::XIsNegative])
    }
}
impl GenFlags for EmptyFlags {
    const NAME: &'static str = "EmptyFlags";
    fn draw(_: &mut simkit::Rng) -> Self {
        EmptyFlags
    }
}

/// (field element, flags) written with `serialize_with_flags`, sized with
/// `serialized_size_with_flags`, read back with `deserialize_with_flags`.
pub struct WithFlags<F: Field, Fl: GenFlags> {
    pub v: F,
    pub f: Fl,
}
impl<F: Field, Fl: GenFlags> std::fmt::Debug for WithFlags<F, Fl> {
    fn fmt(&self, f: &mut std::fmt::Formatter<'_>) -> std::fmt::Result {
        write!(f, "({:?}, {} mask {:#04x})", self.v, Fl::NAME, self.f.u8_bitmask())
    }
}
impl<F: Field, Fl: GenFlags> Sem for WithFlags<F, Fl> {
    fn gen(g: &mut G<'_>) -> Self {
        WithFlags { v: crate::algebra::gen_field(g), f: Fl::draw(g.rng) }
    }
    fn same(&self, o: &Self) -> bool {
        self.v == o.v && self.f.u8_bitmask() == o.f.u8_bitmask()
    }
    fn ser<W: Write>(&self, w: W, _c: Compress) -> Result<(), SerializationError> {
        self.v.serialize_with_flags(w, self.f)
    }
    fn size(&self, _c: Compress) -> usize {
        self.v.serialized_size_with_flags::<Fl>()
    }
    fn deser<R: Read>(r: R, _c: Compress, _v: Validate) -> Result<Self, SerializationError> {
        F::deserialize_with_flags::<R, Fl>(r).map(|(v, f)| WithFlags { v, f })
    }
}

/// quadratic extensions over base primes with 0 and 1 spare bits (no shipped
/// curve has one; the flag byte then spills for the LAST coefficient only)
pub struct SecpFq2Config;
impl Fp2Config for SecpFq2Config {
    type Fp = ark_test_curves::secp256k1::Fq;
    const NONRESIDUE: Self::Fp = ark_ff::MontFp!("-1");
    const FROBENIUS_COEFF_FP2_C1: &'static [Self::Fp] = &[ark_ff::MontFp!("1"), ark_ff::MontFp!("-1")];
}
pub type SecpFq2 = Fp2<SecpFq2Config>;

pub struct Fr255Fq2Config;
impl Fp2Config for Fr255Fq2Config {
    type Fp = ark_test_curves::bls12_381::Fr;
    // only the (de)serializers are exercised; the constant need not be a non-residue for that
    const NONRESIDUE: Self::Fp = ark_ff::MontFp!("5");
    const FROBENIUS_COEFF_FP2_C1: &'static [Self::Fp] = &[ark_ff::MontFp!("1"), ark_ff::MontFp!("-1")];
}
pub type Fr255Fq2 = Fp2<Fr255Fq2Config>;

/// cubic extensions and towers over the same two bases.  Only the (de)serializers, negation and
/// comparison are exercised, and none of those reads the non-residue, the Frobenius
/// coefficients or the square-root constants: they are placeholders.
macro_rules! cubic_over {
    ($cfg:ident, $ty:ident, $base:ty) => {
        pub struct $cfg;
        impl ark_ff::Fp3Config for $cfg {
            type Fp = $base;
            const NONRESIDUE: $base = ark_ff::MontFp!("2");
            const FROBENIUS_COEFF_FP3_C1: &'static [$base] = &[ark_ff::MontFp!("1"); 3];
            const FROBENIUS_COEFF_FP3_C2: &'static [$base] = &[ark_ff::MontFp!("1"); 3];
            const TWO_ADICITY: u32 = 1;
            const TRACE_MINUS_ONE_DIV_TWO: &'static [u64] = &[1];
            const QUADRATIC_NONRESIDUE_TO_T: ark_ff::Fp3<Self> =
                ark_ff::Fp3::new(ark_ff::MontFp!("1"), ark_ff::MontFp!("0"), ark_ff::MontFp!("0"));
        }
        pub type $ty = ark_ff::Fp3<$cfg>;
    };
}
cubic_over!(SecpFq3Config, SecpFq3, ark_test_curves::secp256k1::Fq);
cubic_over!(Fr255Fq3Config, Fr255Fq3, ark_test_curves::bls12_381::Fr);

#[derive(Clone, Copy)]
pub struct SecpFq6Config;
impl ark_ff::Fp6Config for SecpFq6Config {
    type Fp2Config = SecpFq2Config;
    const NONRESIDUE: SecpFq2 = SecpFq2::new(ark_ff::MontFp!("1"), ark_ff::MontFp!("1"));
    const FROBENIUS_COEFF_FP6_C1: &'static [SecpFq2] = &[SecpFq2::new(ark_ff::MontFp!("1"), ark_ff::MontFp!("0")); 6];
    const FROBENIUS_COEFF_FP6_C2: &'static [SecpFq2] = &[SecpFq2::new(ark_ff::MontFp!("1"), ark_ff::MontFp!("0")); 6];
}
pub type SecpFq6 = ark_ff::Fp6<SecpFq6Config>;

pub struct Fr255Fq4Config;
impl ark_ff::Fp4Config for Fr255Fq4Config {
    type Fp2Config = Fr255Fq2Config;
    const NONRESIDUE: Fr255Fq2 = Fr255Fq2::new(ark_ff::MontFp!("0"), ark_ff::MontFp!("1"));
    const FROBENIUS_COEFF_FP4_C1: &'static [ark_test_curves::bls12_381::Fr] = &[ark_ff::MontFp!("1"); 4];
}
pub type Fr255Fq4 = ark_ff::Fp4<Fr255Fq4Config>;

/// wire model of the with-flags entry points: the flags live in the LAST base-field
/// coordinate only; every other coordinate is a plain reduced integer
fn wf_model<F: Field, Fl: GenFlags>(bytes: &[u8], _c: Compress) -> crate::algebra::Model {
    use crate::algebra::{model_field, Dec, Model};
    match model_field::<F>(bytes, Fl::BIT_SIZE) {
        Dec::Short => Model::Short,
        Dec::Reject(w) => Model::Reject(w),
        Dec::Unknown => Model::Unknown,
        Dec::Ok((_, flags, n)) => {
            if Fl::BIT_SIZE == 2 && flags & 0xc0 == 0xc0 {
                Model::Reject("both sign and infinity flags set")
            } else {
                Model::Accept { consumed: n, valid: true, what: "field element with flags" }
            }
        },
    }
}

/// foreign records: a flag-shaped bit in the top byte of a coordinate that carries no flags,
/// a non-reduced coordinate, an invalid flag combination
fn wf_foreign<F: Field, Fl: GenFlags>(g: &mut G<'_>, _c: Compress) -> Option<(Vec<u8>, &'static str)> {
    use crate::algebra::{enc_field, prime_bytes};
    let v: F = crate::algebra::gen_field(g);
    let f = Fl::draw(g.rng);
    let mut enc = enc_field(&v, f.u8_bitmask(), Fl::BIT_SIZE);
    let fb = prime_bytes::<F::BasePrimeField>();
    let d = F::extension_degree() as usize;
    match g.rng.below(3) {
        0 if d > 1 => {
            let coord = g.rng.below(d - 1);
            enc[(coord + 1) * fb - 1] |= *g.rng.pick(&[0x80u8, 0x40, 0xc0]);
            Some((enc, "flag-shaped bit in a coordinate that carries no flags"))
        },
        1 => {
            let coord = g.rng.below(d);
            for b in &mut enc[coord * fb..(coord + 1) * fb] {
                *b = 0xff;
            }
            Some((enc, "all ones"))
        },
        _ => {
            if Fl::BIT_SIZE == 2 {
                let n = enc.len();
                enc[n - 1] |= 0xc0;
                Some((enc, "both flag bits set"))
            } else {
                None
            }
        },
    }
}

fn wf<F: Field, Fl: GenFlags>(name: &'static str, weight: u32) -> Entry {
    Entry {
        name,
        props: F,
        weight,
        hooks: Hooks { model: Some(wf_model::<F, Fl>), foreign: Some(wf_foreign::<F, Fl>), zst_elems: false, budget: 8, fixed_size: true, bulk: false },
        gen: gen_plan::<WithFlags<F, Fl>>,
        exec: execute::<WithFlags<F, Fl>>,
        show: show_values::<WithFlags<F, Fl>>,
    }
}

pub fn flags_entries() -> Vec<Entry> {
    type SecpFq = ark_test_curves::secp256k1::Fq;
    vec![
        wf::<F64, SWFlags>("with_flags F64+SWFlags (spills)", 1),
        wf::<F64, TEFlags>("with_flags F64+TEFlags (spills)", 1),
        wf::<F63, SWFlags>("with_flags F63+SWFlags (1 spare < 2)", 1),
        wf::<F63, TEFlags>("with_flags F63+TEFlags", 1),
        wf::<F62, SWFlags>("with_flags F62+SWFlags", 1),
        wf::<F57, SWFlags>("with_flags F57+SWFlags", 1),
        wf::<SecpFq, SWFlags>("with_flags secp256k1::Fq+SWFlags", 1),
        wf::<SecpFq, TEFlags>("with_flags secp256k1::Fq+TEFlags", 1),
        wf::<SecpFq, EmptyFlags>("with_flags secp256k1::Fq+EmptyFlags", 1),
        wf::<Fr, SWFlags>("with_flags Fr(255)+SWFlags", 1),
        wf::<SecpFq2, SWFlags>("with_flags Fp2(256 bit)+SWFlags", 2),
        wf::<SecpFq2, TEFlags>("with_flags Fp2(256 bit)+TEFlags", 1),
        wf::<SecpFq2, EmptyFlags>("with_flags Fp2(256 bit)+EmptyFlags", 1),
        wf::<Fr255Fq2, SWFlags>("with_flags Fp2(255 bit)+SWFlags", 2),
        wf::<Fr255Fq2, TEFlags>("with_flags Fp2(255 bit)+TEFlags", 1),
        wf::<ark_test_curves::bls12_381::Fq2, SWFlags>("with_flags bls12_381::Fq2+SWFlags", 1),
        wf::<ark_test_curves::mnt6_753::Fq3, SWFlags>("with_flags mnt6_753::Fq3+SWFlags", 1),
        wf::<ark_bw6_761::Fq3, TEFlags>("with_flags bw6_761::Fq3+TEFlags", 1),
        wf::<SecpFq3, SWFlags>("with_flags Fp3(256 bit)+SWFlags", 2),
        wf::<SecpFq3, TEFlags>("with_flags Fp3(256 bit)+TEFlags", 1),
        wf::<SecpFq3, EmptyFlags>("with_flags Fp3(256 bit)+EmptyFlags", 1),
        wf::<Fr255Fq3, SWFlags>("with_flags Fp3(255 bit)+SWFlags", 2),
        wf::<Fr255Fq3, TEFlags>("with_flags Fp3(255 bit)+TEFlags", 1),
        wf::<SecpFq6, SWFlags>("with_flags Fp6 3-over-2 (256 bit)+SWFlags", 1),
        wf::<SecpFq6, EmptyFlags>("with_flags Fp6 3-over-2 (256 bit)+EmptyFlags", 1),
        wf::<Fr255Fq4, SWFlags>("with_flags Fp4 (255 bit)+SWFlags", 1),
        wf::<Fr255Fq4, TEFlags>("with_flags Fp4 (255 bit)+TEFlags", 1),
        w::<SecpFq3>("harness Fp3 over secp256k1::Fq", F, 1, 8),
        w::<Fr255Fq3>("harness Fp3 over bls12_381::Fr", F, 1, 8),
        w::<SecpFq6>("harness Fp6 over secp256k1::Fq", F, 1, 8),
        w::<Fr255Fq4>("harness Fp4 over bls12_381::Fr", F, 1, 8),
        w::<SecpFq2>("harness Fp2 over secp256k1::Fq", F, 1, 8),
        w::<Fr255Fq2>("harness Fp2 over bls12_381::Fr", F, 1, 8),
    ]
}

// ---- a harness-declared twisted Edwards curve over a base field WITHOUT spare bits ----------
// x^2 + y^2 = 1 + 3 x^2 y^2 over the 256-bit secp256k1 base field (a = 1 square, d = 3
// non-square: complete law).  No shipped Edwards curve sits over such a field, so the
// "flags need an extra byte" configuration of the Edwards serializers is otherwise never
// exercised.  The scalar field is a placeholder (the group order is not computed): every
// point is therefore "outside the subgroup" for the library and for the reference predicate
// alike, which is all the serialization oracles need.
pub struct Te256Config;
impl ark_ec::CurveConfig for Te256Config {
    type BaseField = ark_test_curves::secp256k1::Fq;
    type ScalarField = ark_test_curves::secp256k1::Fr;
    const COFACTOR: &'static [u64] = &[4];
    const COFACTOR_INV: Self::ScalarField = ark_ff::MontFp!("1");
}
impl ark_ec::twisted_edwards::TECurveConfig for Te256Config {
    const COEFF_A: Self::BaseField = ark_ff::MontFp!("1");
    const COEFF_D: Self::BaseField = ark_ff::MontFp!("3");
    const GENERATOR: ark_ec::twisted_edwards::Affine<Self> = ark_ec::twisted_edwards::Affine::new_unchecked(
        ark_ff::MontFp!("46840401179029049472593912046166263856250546833625685485552013624820772272870"),
        ark_ff::MontFp!("4"),
    );
    type MontCurveConfig = Te256Config;
}
impl ark_ec::twisted_edwards::MontCurveConfig for Te256Config {
    const COEFF_A: Self::BaseField = ark_ff::MontFp!("1");
    const COEFF_B: Self::BaseField = ark_ff::MontFp!("1");
    type TECurveConfig = Te256Config;
}

/// the second public decoder of prime fields: bytes produced by `serialize_with_flags` must
/// come back as the same (element, flags) through `from_random_bytes_with_flags`
pub struct ViaRandomBytes<F: Field, Fl: GenFlags> {
    pub v: F,
    pub f: Fl,
}
impl<F: Field, Fl: GenFlags> std::fmt::Debug for ViaRandomBytes<F, Fl> {
    fn fmt(&self, f: &mut std::fmt::Formatter<'_>) -> std::fmt::Result {
        write!(f, "({:?}, {} mask {:#04x})", self.v, Fl::NAME, self.f.u8_bitmask())
    }
}
impl<F: Field, Fl: GenFlags> Sem for ViaRandomBytes<F, Fl> {
    fn gen(g: &mut G<'_>) -> Self {
        ViaRandomBytes { v: crate::algebra::gen_field(g), f: Fl::draw(g.rng) }
    }
    fn same(&self, o: &Self) -> bool {
        self.v == o.v && self.f.u8_bitmask() == o.f.u8_bitmask()
    }
    fn ser<W: Write>(&self, w: W, _c: Compress) -> Result<(), SerializationError> {
        self.v.serialize_with_flags(w, self.f)
    }
    fn size(&self, _c: Compress) -> usize {
        self.v.serialized_size_with_flags::<Fl>()
    }
    fn deser<R: Read>(mut r: R, _c: Compress, _v: Validate) -> Result<Self, SerializationError> {
        let n = F::zero().serialized_size_with_flags::<Fl>();
        let mut buf = vec![0u8; n];
        r.read_exact(&mut buf)?;
        F::from_random_bytes_with_flags::<Fl>(&buf).map(|(v, f)| ViaRandomBytes { v, f }).ok_or(SerializationError::InvalidData)
    }
}

pub fn extra_entries() -> Vec<Entry> {
    type SecpFq = ark_test_curves::secp256k1::Fq;
    type TeA = ark_ec::twisted_edwards::Affine<Te256Config>;
    type TeP = ark_ec::twisted_edwards::Projective<Te256Config>;
    vec![
        w::<TeA>("harness TE curve over a 256-bit field: Affine", F, 2, 1),
        w::<TeP>("harness TE curve over a 256-bit field: Projective", F, 1, 1),
        e::<ViaRandomBytes<SecpFq, SWFlags>>("from_random_bytes_with_flags secp256k1::Fq+SWFlags", F, 1, 8),
        e::<ViaRandomBytes<SecpFq, TEFlags>>("from_random_bytes_with_flags secp256k1::Fq+TEFlags", F, 1, 8),
        e::<ViaRandomBytes<F64, SWFlags>>("from_random_bytes_with_flags F64+SWFlags", F, 1, 8),
        e::<ViaRandomBytes<F63, SWFlags>>("from_random_bytes_with_flags F63+SWFlags", F, 1, 8),
        e::<ViaRandomBytes<F62, SWFlags>>("from_random_bytes_with_flags F62+SWFlags", F, 1, 8),
        e::<ViaRandomBytes<F57, TEFlags>>("from_random_bytes_with_flags F57+TEFlags", F, 1, 8),
        e::<ViaRandomBytes<Fr, SWFlags>>("from_random_bytes_with_flags Fr(255)+SWFlags", F, 1, 8),
        e::<ViaRandomBytes<Fr, EmptyFlags>>("from_random_bytes_with_flags Fr(255)+EmptyFlags", F, 1, 8),
        e::<ViaRandomBytes<ark_test_curves::bls12_381::Fq, SWFlags>>("from_random_bytes_with_flags Fq(381)+SWFlags", F, 1, 8),
        e::<ViaRandomBytes<ark_test_curves::mnt4_753::Fq, SWFlags>>("from_random_bytes_with_flags Fq(753)+SWFlags", F, 1, 8),
        e::<ViaRandomBytes<ark_secp384r1::Fq, SWFlags>>("from_random_bytes_with_flags Fq(384)+SWFlags", F, 1, 8),
    ]
}
