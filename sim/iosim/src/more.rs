//! Catalogue entries from /repo/curves, harness-declared one-limb fields that
//! fill the remaining spare-bit classes, and ark-poly's derive users.
use crate::algebra::{zcash_foreign, zcash_model, Wire};
use crate::catalogue::Entry;
use crate::sem::{Sem, G};
use crate::sim::{execute, gen_plan, show_values, Hooks};
use crate::std_io;
use ark_ff::fields::{Fp64, MontBackend, MontConfig};
use ark_poly::univariate::{DensePolynomial, SparsePolynomial};
use ark_poly::{
    DenseMultilinearExtension, EvaluationDomain, Evaluations, GeneralEvaluationDomain, Radix2EvaluationDomain,
    SparseMultilinearExtension,
};

macro_rules! small_field {
    ($cfg:ident, $ty:ident, $modulus:literal, $gen:literal) => {
        #[derive(MontConfig)]
        #[modulus = $modulus]
        #[generator = $gen]
        pub struct $cfg;
        pub type $ty = Fp64<MontBackend<$cfg, 1>>;
    };
}
small_field!(F57Config, F57, "144115188075855859", "2");
small_field!(F58Config, F58, "288230376151711717", "6");
small_field!(F59Config, F59, "576460752303423433", "5");
small_field!(F60Config, F60, "1152921504606846883", "2");
small_field!(F61Config, F61, "2305843009213693951", "37");
small_field!(F62Config, F62, "4611686018427387847", "6");
small_field!(F63Config, F63, "9223372036854775783", "3");
small_field!(F64Config, F64, "18446744073709551557", "2");

const F: &[&str] = &["C09", "C10"];
const C18: &[&str] = &["C18"];

fn w<T: Wire>(name: &'static str, props: &'static [&'static str], weight: u32, budget: usize) -> Entry {
    Entry {
        name,
        props,
        weight,
        hooks: Hooks { model: Some(T::model), foreign: Some(T::foreign), zst_elems: false, budget },
        gen: gen_plan::<T>,
        exec: execute::<T>,
        show: show_values::<T>,
    }
}
/// entry with explicitly supplied wire model (crates that override the point format)
fn wz<T: Sem>(
    name: &'static str,
    props: &'static [&'static str],
    weight: u32,
    model: crate::sim::ModelFn,
    foreign: crate::sim::ForeignFn,
) -> Entry {
    Entry {
        name,
        props,
        weight,
        hooks: Hooks { model: Some(model), foreign: Some(foreign), zst_elems: false, budget: 1 },
        gen: gen_plan::<T>,
        exec: execute::<T>,
        show: show_values::<T>,
    }
}
fn e<T: Sem>(name: &'static str, props: &'static [&'static str], weight: u32, budget: usize) -> Entry {
    Entry {
        name,
        props,
        weight,
        hooks: Hooks { model: None, foreign: None, zst_elems: false, budget },
        gen: gen_plan::<T>,
        exec: execute::<T>,
        show: show_values::<T>,
    }
}

// ---- ark-poly types (users of the derive macros / hand-written impls) ------------------

type Fr = ark_test_curves::bls12_381::Fr;

impl Sem for DensePolynomial<Fr> {
    fn gen(g: &mut G<'_>) -> Self {
        DensePolynomial { coeffs: Vec::<Fr>::gen(g) }
    }
    fn same(&self, o: &Self) -> bool {
        self.coeffs == o.coeffs
    }
    std_io!();
}
impl Sem for SparsePolynomial<Fr> {
    fn gen(g: &mut G<'_>) -> Self {
        let n = g.len();
        let mut deg = 0usize;
        let terms: Vec<(usize, Fr)> = (0..n)
            .map(|_| {
                deg += 1 + g.rng.below(5);
                (deg, Fr::gen(g))
            })
            .collect();
        SparsePolynomial::from_coefficients_vec(terms)
    }
    fn same(&self, o: &Self) -> bool {
        self == o
    }
    std_io!();
}
impl Sem for Radix2EvaluationDomain<Fr> {
    fn gen(g: &mut G<'_>) -> Self {
        let d = Radix2EvaluationDomain::<Fr>::new(1usize << g.rng.below(20)).unwrap();
        if g.rng.chance(1, 2) {
            d
        } else {
            let mut off = Fr::gen(g);
            if off == Fr::from(0u64) {
                off = Fr::from(7u64);
            }
            d.get_coset(off).unwrap()
        }
    }
    fn same(&self, o: &Self) -> bool {
        self == o
    }
    std_io!();
}
impl Sem for GeneralEvaluationDomain<Fr> {
    fn gen(g: &mut G<'_>) -> Self {
        GeneralEvaluationDomain::<Fr>::new(1 + g.rng.below(5000)).unwrap()
    }
    fn same(&self, o: &Self) -> bool {
        self == o
    }
    std_io!();
}
impl Sem for Evaluations<Fr, Radix2EvaluationDomain<Fr>> {
    fn gen(g: &mut G<'_>) -> Self {
        let d = Radix2EvaluationDomain::<Fr>::new(1usize << g.rng.below(6)).unwrap();
        let evals = (0..EvaluationDomain::size(&d)).map(|_| Fr::gen(g)).collect();
        Evaluations::from_vec_and_domain(evals, d)
    }
    fn same(&self, o: &Self) -> bool {
        self == o
    }
    std_io!();
}
impl Sem for DenseMultilinearExtension<Fr> {
    fn gen(g: &mut G<'_>) -> Self {
        let nv = g.rng.below(6);
        DenseMultilinearExtension::from_evaluations_vec(nv, (0..1 << nv).map(|_| Fr::gen(g)).collect())
    }
    fn same(&self, o: &Self) -> bool {
        self == o
    }
    std_io!();
}
impl Sem for SparseMultilinearExtension<Fr> {
    fn gen(g: &mut G<'_>) -> Self {
        let nv = 1 + g.rng.below(8);
        let n = g.len().min(1 << nv);
        let ev: Vec<(usize, Fr)> = (0..n).map(|_| (g.rng.below(1 << nv), Fr::gen(g))).collect();
        SparseMultilinearExtension::from_evaluations(nv, &ev)
    }
    fn same(&self, o: &Self) -> bool {
        self == o
    }
    std_io!();
}

pub fn more() -> Vec<Entry> {
    vec![
        // one-limb fields: every spare-bit class 0..7 of the top byte
        w::<F57>("harness F57 (57 bit, 7 spare)", F, 1, 8),
        w::<F58>("harness F58 (58 bit)", F, 1, 8),
        w::<F59>("harness F59 (59 bit)", F, 1, 8),
        w::<F60>("harness F60 (60 bit)", F, 1, 8),
        w::<F61>("harness F61 (61 bit)", F, 1, 8),
        w::<F62>("harness F62 (62 bit)", F, 1, 8),
        w::<F63>("harness F63 (63 bit)", F, 1, 8),
        w::<F64>("harness F64 (64 bit, 0 spare)", F, 2, 8),
        // /repo/curves fields
        w::<ark_bls12_381::Fq>("curves bls12_381::Fq", F, 1, 8),
        w::<ark_bls12_381::Fq12>("curves bls12_381::Fq12", F, 1, 8),
        w::<ark_bls12_377::Fq>("bls12_377::Fq (377 bit)", F, 2, 8),
        w::<ark_bls12_377::Fr>("bls12_377::Fr (253 bit)", F, 2, 8),
        w::<ark_bls12_377::Fq2>("bls12_377::Fq2", F, 1, 8),
        w::<ark_bw6_761::Fq>("bw6_761::Fq (761 bit)", F, 2, 8),
        w::<ark_bw6_761::Fq3>("bw6_761::Fq3", F, 1, 8),
        w::<ark_bw6_761::Fq6>("bw6_761::Fq6", F, 1, 8),
        w::<ark_mnt4_298::Fq>("mnt4_298::Fq (298 bit)", F, 2, 8),
        w::<ark_mnt4_298::Fq2>("mnt4_298::Fq2", F, 1, 8),
        w::<ark_mnt4_298::Fq4>("mnt4_298::Fq4", F, 1, 8),
        w::<ark_mnt6_298::Fq3>("mnt6_298::Fq3", F, 1, 8),
        w::<ark_mnt6_298::Fq6>("mnt6_298::Fq6 (2 over 3)", F, 1, 8),
        w::<ark_secp384r1::Fq>("secp384r1::Fq (384 bit)", F, 2, 8),
        w::<ark_curve25519::Fq>("curve25519::Fq (255 bit)", F, 1, 8),
        w::<ark_pallas::Fq>("pallas::Fq (255 bit)", F, 1, 8),
        // /repo/curves points: short Weierstrass
        // ark-bls12-381 overrides the point format (zkcrypto/ZCash style): own wire model
        wz::<ark_bls12_381::G1Affine>("curves bls12_381::G1Affine", F, 3, zcash_model::<ark_bls12_381::g1::Config>, zcash_foreign::<ark_bls12_381::g1::Config>),
        wz::<ark_bls12_381::G2Affine>("curves bls12_381::G2Affine", F, 3, zcash_model::<ark_bls12_381::g2::Config>, zcash_foreign::<ark_bls12_381::g2::Config>),
        wz::<ark_bls12_381::G1Projective>("curves bls12_381::G1Projective", F, 1, zcash_model::<ark_bls12_381::g1::Config>, zcash_foreign::<ark_bls12_381::g1::Config>),
        wz::<ark_bls12_381::G2Projective>("curves bls12_381::G2Projective", F, 1, zcash_model::<ark_bls12_381::g2::Config>, zcash_foreign::<ark_bls12_381::g2::Config>),
        w::<ark_bls12_377::G1Affine>("bls12_377::G1Affine", F, 2, 1),
        w::<ark_bls12_377::G2Affine>("bls12_377::G2Affine", F, 2, 1),
        w::<ark_bw6_761::G1Affine>("bw6_761::G1Affine", F, 1, 1),
        w::<ark_bw6_761::G2Affine>("bw6_761::G2Affine", F, 1, 1),
        w::<ark_mnt4_298::G1Affine>("mnt4_298::G1Affine", F, 1, 1),
        w::<ark_mnt4_298::G2Affine>("mnt4_298::G2Affine", F, 1, 1),
        w::<ark_mnt6_298::G1Affine>("mnt6_298::G1Affine", F, 1, 1),
        w::<ark_mnt6_298::G2Affine>("mnt6_298::G2Affine", F, 1, 1),
        w::<ark_pallas::Affine>("pallas::Affine", F, 2, 1),
        w::<ark_pallas::Projective>("pallas::Projective", F, 1, 1),
        w::<ark_secp384r1::Affine>("secp384r1::Affine", F, 2, 1),
        w::<ark_grumpkin::Affine>("grumpkin::Affine", F, 1, 1),
        w::<ark_ed_on_bls12_381_bandersnatch::SWAffine>("bandersnatch::SWAffine", F, 1, 1),
        // twisted Edwards (cofactors 4 and 8)
        w::<ark_ed_on_bls12_381::EdwardsAffine>("curves ed_on_bls12_381::EdwardsAffine", F, 2, 1),
        w::<ark_ed_on_bls12_381_bandersnatch::EdwardsAffine>("bandersnatch::EdwardsAffine", F, 2, 1),
        w::<ark_ed_on_bls12_381_bandersnatch::EdwardsProjective>("bandersnatch::EdwardsProjective", F, 1, 1),
        w::<ark_ed_on_bn254::EdwardsAffine>("ed_on_bn254::EdwardsAffine", F, 2, 1),
        w::<ark_ed_on_bls12_377::EdwardsAffine>("ed_on_bls12_377::EdwardsAffine", F, 2, 1),
        w::<ark_ed25519::EdwardsAffine>("ed25519::EdwardsAffine", F, 2, 1),
        w::<ark_ed25519::EdwardsProjective>("ed25519::EdwardsProjective", F, 1, 1),
        w::<ark_ec::pairing::PairingOutput<ark_bn254::Bn254>>("PairingOutput<Bn254>", F, 1, 1),
        // ark-poly's serializable types
        e::<DensePolynomial<Fr>>("poly DensePolynomial<Fr>", C18, 2, 8),
        e::<SparsePolynomial<Fr>>("poly SparsePolynomial<Fr>", C18, 2, 8),
        e::<Radix2EvaluationDomain<Fr>>("poly Radix2EvaluationDomain<Fr>", C18, 1, 8),
        e::<GeneralEvaluationDomain<Fr>>("poly GeneralEvaluationDomain<Fr>", C18, 1, 8),
        e::<Evaluations<Fr, Radix2EvaluationDomain<Fr>>>("poly Evaluations<Fr,Radix2>", C18, 1, 8),
        e::<DenseMultilinearExtension<Fr>>("poly DenseMultilinearExtension<Fr>", C18, 1, 8),
        e::<SparseMultilinearExtension<Fr>>("poly SparseMultilinearExtension<Fr>", C18, 1, 8),
    ]
}
