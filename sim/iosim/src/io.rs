//! Simulated storage and transport: `SimWriter`, `SimReader`, medium faults.
//! These are the only `Write`/`Read` implementations the library sees.

use serde_json::{json, Value};
use simkit::{Digest, Rng};
use std::io::{self, ErrorKind, Read, Write};

/// Benign per-call behaviour.
#[derive(Clone, Copy, Debug, PartialEq, Eq)]
pub enum Beh {
    Full,
    /// transfer only k bytes (clamped to 1..len-1)
    Short(usize),
    /// return ErrorKind::Interrupted (at most 3 in a row)
    Eintr,
}

#[derive(Clone, Copy, Debug, PartialEq, Eq)]
pub enum HardKind {
    /// write: Ok(0) (disk full as write_all sees it); read: Ok(0) (EOF)
    Zero,
    Eio,
    Enospc,
    WouldBlock,
}

impl HardKind {
    pub fn name(&self) -> &'static str {
        match self {
            HardKind::Zero => "zero",
            HardKind::Eio => "eio",
            HardKind::Enospc => "enospc",
            HardKind::WouldBlock => "wouldblock",
        }
    }
    pub fn from_name(s: &str) -> HardKind {
        match s {
            "zero" => HardKind::Zero,
            "enospc" => HardKind::Enospc,
            "wouldblock" => HardKind::WouldBlock,
            _ => HardKind::Eio,
        }
    }
    fn err(&self) -> io::Error {
        match self {
            HardKind::Zero => unreachable!(),
            HardKind::Eio => io::Error::new(ErrorKind::Other, "simulated EIO"),
            HardKind::Enospc => io::Error::new(ErrorKind::Other, "simulated ENOSPC"),
            HardKind::WouldBlock => io::Error::new(ErrorKind::WouldBlock, "simulated EWOULDBLOCK"),
        }
    }
}

/// Plan for one side of the transfer: benign behaviours per call (cycled) and
/// at most one hard fault at an absolute byte offset of the stream.
#[derive(Clone, Debug, Default)]
pub struct IoPlan {
    pub calls: Vec<Beh>,
    pub hard: Option<(usize, HardKind)>,
}

impl IoPlan {
    pub fn to_json(&self) -> Value {
        let calls: Vec<Value> = self
            .calls
            .iter()
            .map(|b| match b {
                Beh::Full => json!("full"),
                Beh::Short(k) => json!({"short": k}),
                Beh::Eintr => json!("eintr"),
            })
            .collect();
        json!({"calls": calls, "hard": self.hard.map(|(t,k)| json!({"at": t, "kind": k.name()}))})
    }
    pub fn from_json(v: &Value) -> IoPlan {
        let mut p = IoPlan::default();
        if let Some(a) = v["calls"].as_array() {
            for c in a {
                if c == "eintr" {
                    p.calls.push(Beh::Eintr)
                } else if let Some(k) = c["short"].as_u64() {
                    p.calls.push(Beh::Short(k as usize))
                } else {
                    p.calls.push(Beh::Full)
                }
            }
        }
        if let Some(at) = v["hard"]["at"].as_u64() {
            p.hard = Some((at as usize, HardKind::from_name(v["hard"]["kind"].as_str().unwrap_or("eio"))));
        }
        p
    }
    pub fn gen_benign(rng: &mut Rng) -> IoPlan {
        let mut p = IoPlan::default();
        // swarm: each run draws its own mix of behaviours
        let n = rng.below(9);
        let p_short = *rng.pick(&[0u32, 20, 50, 90]);
        let p_eintr = *rng.pick(&[0u32, 0, 10, 40]);
        for _ in 0..n {
            let r = rng.below(100) as u32;
            if r < p_eintr {
                p.calls.push(Beh::Eintr)
            } else if r < p_eintr + p_short {
                // bias to tiny and limb-sized transfers
                let k = match rng.below(4) {
                    0 => 1,
                    1 => rng.range(1, 8),
                    2 => 8 * rng.range(1, 6),
                    _ => rng.range(1, 200),
                };
                p.calls.push(Beh::Short(k))
            } else {
                p.calls.push(Beh::Full)
            }
        }
        p
    }
}

#[derive(Default, Clone, Debug)]
pub struct IoCounts {
    pub calls: u64,
    pub short: u64,
    pub eintr: u64,
    pub hard: u64,
    pub dead_calls: u64,
    pub flushes: u64,
    pub empty_calls: u64,
}

pub struct SimWriter<'a> {
    pub medium: Vec<u8>,
    /// (offset, len) of every accepted write call
    pub chunks: Vec<(usize, usize)>,
    plan: &'a IoPlan,
    call: usize,
    eintr_run: u32,
    pub dead: bool,
    pub hard_fired: Option<HardKind>,
    pub counts: IoCounts,
    pub digest: Digest,
}

impl<'a> SimWriter<'a> {
    pub fn new(plan: &'a IoPlan) -> Self {
        SimWriter {
            medium: vec![],
            chunks: vec![],
            plan,
            call: 0,
            eintr_run: 0,
            dead: false,
            hard_fired: None,
            counts: IoCounts::default(),
            digest: Digest::default(),
        }
    }
    pub fn accepted(&self) -> usize {
        self.medium.len()
    }
}

impl Write for SimWriter<'_> {
    fn write(&mut self, buf: &[u8]) -> io::Result<usize> {
        self.counts.calls += 1;
        self.digest.add(0x57 ^ ((buf.len() as u64) << 8));
        if self.dead {
            self.counts.dead_calls += 1;
            self.digest.add(0xdead);
            return Err(io::Error::new(ErrorKind::BrokenPipe, "simulated: writer already failed"));
        }
        if buf.is_empty() {
            self.counts.empty_calls += 1;
            return Ok(0);
        }
        if let Some((t, kind)) = self.plan.hard {
            if self.medium.len() == t {
                self.dead = true;
                self.hard_fired = Some(kind);
                self.counts.hard += 1;
                self.digest.add(0xfa17 ^ ((t as u64) << 16));
                return match kind {
                    HardKind::Zero => Ok(0),
                    k => Err(k.err()),
                };
            }
        }
        let beh = if self.plan.calls.is_empty() {
            Beh::Full
        } else {
            let b = self.plan.calls[self.call % self.plan.calls.len()];
            self.call += 1;
            b
        };
        let mut n = buf.len();
        match beh {
            Beh::Eintr if self.eintr_run < 3 => {
                self.eintr_run += 1;
                self.counts.eintr += 1;
                self.digest.add(0xe1);
                return Err(io::Error::new(ErrorKind::Interrupted, "simulated EINTR"));
            },
            Beh::Short(k) if buf.len() > 1 => {
                n = k.clamp(1, buf.len() - 1);
            },
            _ => {},
        }
        self.eintr_run = 0;
        if let Some((t, _)) = self.plan.hard {
            if self.medium.len() < t {
                n = n.min(t - self.medium.len());
            }
        }
        if n < buf.len() {
            self.counts.short += 1;
        }
        self.chunks.push((self.medium.len(), n));
        self.medium.extend_from_slice(&buf[..n]);
        self.digest.add(n as u64);
        Ok(n)
    }
    fn flush(&mut self) -> io::Result<()> {
        self.counts.flushes += 1;
        Ok(())
    }
}

pub struct SimReader<'a> {
    data: &'a [u8],
    pub pos: usize,
    plan: &'a IoPlan,
    call: usize,
    eintr_run: u32,
    pub dead: bool,
    pub hard_fired: Option<HardKind>,
    /// largest stream offset (exclusive) the library ever asked for
    pub max_req_end: usize,
    pub counts: IoCounts,
    pub digest: Digest,
    /// a short read ended strictly inside an 8-byte limb
    pub short_mid_limb: bool,
}

impl<'a> SimReader<'a> {
    pub fn new(data: &'a [u8], start: usize, plan: &'a IoPlan) -> Self {
        SimReader {
            data,
            pos: start,
            plan,
            call: 0,
            eintr_run: 0,
            dead: false,
            hard_fired: None,
            max_req_end: start,
            counts: IoCounts::default(),
            digest: Digest::default(),
            short_mid_limb: false,
        }
    }
}

impl Read for SimReader<'_> {
    fn read(&mut self, buf: &mut [u8]) -> io::Result<usize> {
        self.counts.calls += 1;
        self.digest.add(0x52 ^ ((buf.len() as u64) << 8));
        if self.dead {
            self.counts.dead_calls += 1;
            self.digest.add(0xdead);
            return match self.hard_fired {
                Some(HardKind::Zero) => Ok(0),
                _ => Err(io::Error::new(ErrorKind::BrokenPipe, "simulated: reader already failed")),
            };
        }
        if buf.is_empty() {
            self.counts.empty_calls += 1;
            return Ok(0);
        }
        self.max_req_end = self.max_req_end.max(self.pos.saturating_add(buf.len()));
        let mut limit = self.data.len();
        if let Some((t, kind)) = self.plan.hard {
            if self.pos == t {
                self.dead = true;
                self.hard_fired = Some(kind);
                self.counts.hard += 1;
                self.digest.add(0xfa17 ^ ((t as u64) << 16));
                return match kind {
                    HardKind::Zero => Ok(0),
                    k => Err(k.err()),
                };
            }
            if self.pos < t {
                limit = limit.min(t);
            }
        }
        if self.pos >= limit {
            // natural end of medium
            self.digest.add(0xe0f);
            return Ok(0);
        }
        let beh = if self.plan.calls.is_empty() {
            Beh::Full
        } else {
            let b = self.plan.calls[self.call % self.plan.calls.len()];
            self.call += 1;
            b
        };
        let mut n = buf.len().min(limit - self.pos);
        match beh {
            Beh::Eintr if self.eintr_run < 3 => {
                self.eintr_run += 1;
                self.counts.eintr += 1;
                self.digest.add(0xe1);
                return Err(io::Error::new(ErrorKind::Interrupted, "simulated EINTR"));
            },
            Beh::Short(k) if n > 1 => {
                n = k.clamp(1, n - 1);
            },
            _ => {},
        }
        self.eintr_run = 0;
        if n < buf.len() {
            self.counts.short += 1;
            if n % 8 != 0 {
                self.short_mid_limb = true;
            }
        }
        buf[..n].copy_from_slice(&self.data[self.pos..self.pos + n]);
        self.pos += n;
        self.digest.add(n as u64);
        Ok(n)
    }
}

/// What the disk or the network did to the stored bytes between write and read.
#[derive(Clone, Debug, PartialEq)]
pub enum MOp {
    Truncate(usize),
    BitFlip(usize, u8),
    ByteSet(usize, u8),
    ZeroRange(usize, usize),
    FfRange(usize, usize),
    GarbageRange(usize, usize, u64),
    /// keep the first t bytes of record 0, take the rest from the reference
    /// encoding of another value (given by its value seed) of the same type
    Torn(usize, u64),
    DupChunk(usize),
    SwapChunks(usize, usize),
    DropChunk(usize),
    AppendGarbage(usize, u64),
    /// overwrite 8 bytes with a little-endian u64 (length-prefix blow-up)
    SetU64(usize, u64),
}

impl MOp {
    pub fn kind(&self) -> &'static str {
        match self {
            MOp::Truncate(..) => "truncate",
            MOp::BitFlip(..) => "bitflip",
            MOp::ByteSet(..) => "byte_set",
            MOp::ZeroRange(..) => "zero_range",
            MOp::FfRange(..) => "ff_range",
            MOp::GarbageRange(..) => "garbage_range",
            MOp::Torn(..) => "torn",
            MOp::DupChunk(..) => "dup_chunk",
            MOp::SwapChunks(..) => "swap_chunks",
            MOp::DropChunk(..) => "drop_chunk",
            MOp::AppendGarbage(..) => "append_garbage",
            MOp::SetU64(..) => "length_prefix_blowup",
        }
    }
    pub fn to_json(&self) -> Value {
        match *self {
            MOp::Truncate(t) => json!({"op":"truncate","at":t}),
            MOp::BitFlip(p, b) => json!({"op":"bitflip","pos":p,"bit":b}),
            MOp::ByteSet(p, v) => json!({"op":"byte_set","pos":p,"val":v}),
            MOp::ZeroRange(a, b) => json!({"op":"zero_range","from":a,"to":b}),
            MOp::FfRange(a, b) => json!({"op":"ff_range","from":a,"to":b}),
            MOp::GarbageRange(a, b, s) => json!({"op":"garbage_range","from":a,"to":b,"seed":s.to_string()}),
            MOp::Torn(t, s) => json!({"op":"torn","at":t,"other_value_seed":s.to_string()}),
            MOp::DupChunk(i) => json!({"op":"dup_chunk","chunk":i}),
            MOp::SwapChunks(i, j) => json!({"op":"swap_chunks","a":i,"b":j}),
            MOp::DropChunk(i) => json!({"op":"drop_chunk","chunk":i}),
            MOp::AppendGarbage(n, s) => json!({"op":"append_garbage","len":n,"seed":s.to_string()}),
            MOp::SetU64(p, v) => json!({"op":"set_u64","pos":p,"val":v.to_string()}),
        }
    }
    pub fn from_json(v: &Value) -> Option<MOp> {
        let u = |k: &str| v[k].as_u64().unwrap_or(0) as usize;
        let s = |k: &str| v[k].as_str().and_then(|x| x.parse::<u64>().ok()).unwrap_or(0);
        Some(match v["op"].as_str()? {
            "truncate" => MOp::Truncate(u("at")),
            "bitflip" => MOp::BitFlip(u("pos"), u("bit") as u8),
            "byte_set" => MOp::ByteSet(u("pos"), u("val") as u8),
            "zero_range" => MOp::ZeroRange(u("from"), u("to")),
            "ff_range" => MOp::FfRange(u("from"), u("to")),
            "garbage_range" => MOp::GarbageRange(u("from"), u("to"), s("seed")),
            "torn" => MOp::Torn(u("at"), s("other_value_seed")),
            "dup_chunk" => MOp::DupChunk(u("chunk")),
            "swap_chunks" => MOp::SwapChunks(u("a"), u("b")),
            "drop_chunk" => MOp::DropChunk(u("chunk")),
            "append_garbage" => MOp::AppendGarbage(u("len"), s("seed")),
            "set_u64" => MOp::SetU64(u("pos"), s("val")),
            _ => return None,
        })
    }
}

/// Apply one medium fault.  Returns true if it changed the medium (= fired).
/// `chunks` are the writer's accepted write calls; `other` supplies the
/// reference encoding for `Torn`.
pub fn apply_mop(
    m: &mut Vec<u8>,
    chunks: &[(usize, usize)],
    op: &MOp,
    other: &dyn Fn(u64) -> Option<Vec<u8>>,
    rec0_len: usize,
) -> bool {
    let before_len = m.len();
    match *op {
        MOp::Truncate(t) => {
            if t < m.len() {
                m.truncate(t);
                return true;
            }
            false
        },
        MOp::BitFlip(p, b) => {
            if p < m.len() {
                m[p] ^= 1 << (b & 7);
                return true;
            }
            false
        },
        MOp::ByteSet(p, v) => {
            if p < m.len() && m[p] != v {
                m[p] = v;
                return true;
            }
            false
        },
        MOp::ZeroRange(a, b) | MOp::FfRange(a, b) => {
            let fill = if matches!(op, MOp::ZeroRange(..)) { 0u8 } else { 0xff };
            let b = b.min(m.len());
            let mut ch = false;
            if a < b {
                for x in &mut m[a..b] {
                    if *x != fill {
                        *x = fill;
                        ch = true;
                    }
                }
            }
            ch
        },
        MOp::GarbageRange(a, b, s) => {
            let b = b.min(m.len());
            if a < b {
                let mut r = Rng::new(s);
                let g = r.bytes(b - a);
                let ch = m[a..b] != g[..];
                m[a..b].copy_from_slice(&g);
                return ch;
            }
            false
        },
        MOp::Torn(t, s) => {
            let Some(o) = other(s) else { return false };
            let t = t.min(rec0_len).min(m.len());
            let rec_end = rec0_len.min(m.len());
            let mut n: Vec<u8> = m[..t].to_vec();
            if t < o.len() {
                n.extend_from_slice(&o[t..]);
            }
            n.extend_from_slice(&m[rec_end..]);
            let ch = n != *m;
            *m = n;
            ch
        },
        MOp::DupChunk(i) => {
            if chunks.is_empty() {
                return false;
            }
            let (o, l) = chunks[i % chunks.len()];
            if o + l <= m.len() && l > 0 {
                let c = m[o..o + l].to_vec();
                let tail = m.split_off(o + l);
                m.extend_from_slice(&c);
                m.extend_from_slice(&tail);
                return true;
            }
            false
        },
        MOp::SwapChunks(i, j) => {
            if chunks.len() < 2 {
                return false;
            }
            let (i, j) = (i % chunks.len(), j % chunks.len());
            let (a, b) = if i < j { (i, j) } else { (j, i) };
            if a == b {
                return false;
            }
            let (oa, la) = chunks[a];
            let (ob, lb) = chunks[b];
            if ob + lb > m.len() || oa + la > ob {
                return false;
            }
            let mut n = m[..oa].to_vec();
            n.extend_from_slice(&m[ob..ob + lb]);
            n.extend_from_slice(&m[oa + la..ob]);
            n.extend_from_slice(&m[oa..oa + la]);
            n.extend_from_slice(&m[ob + lb..]);
            let ch = n != *m;
            *m = n;
            ch
        },
        MOp::DropChunk(i) => {
            if chunks.is_empty() {
                return false;
            }
            let (o, l) = chunks[i % chunks.len()];
            if o + l <= m.len() && l > 0 {
                m.drain(o..o + l);
                return true;
            }
            false
        },
        MOp::SetU64(p, v) => {
            if p + 8 <= m.len() {
                let b = v.to_le_bytes();
                let ch = m[p..p + 8] != b;
                m[p..p + 8].copy_from_slice(&b);
                return ch;
            }
            false
        },
        MOp::AppendGarbage(n, s) => {
            let mut r = Rng::new(s);
            m.extend_from_slice(&r.bytes(n));
            m.len() != before_len
        },
    }
}
