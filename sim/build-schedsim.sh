#!/bin/bash
# Two separate cargo invocations: feature unification must not leak `parallel`
# into the serial oracle.
cd "$(dirname "$0")" || exit 2
cargo build --release --offline -p schedsim-oracle || exit 1
cargo build --release --offline -p schedsim || exit 1
par=$(./target/release/schedsim features)
ser=$(./target/release/schedsim-oracle features)
[ "$par" = "parallel=true" ] && [ "$ser" = "parallel=false" ] || { echo "error: feature separation broken: $par / $ser"; exit 1; }
