//! Engine C (`histsim`, hosted in the schedsim binaries): operation histories
//! of the incremental Pippenger accumulators and every multi-scalar entry
//! point, judged against a reference model (a multiset of (base, scalar)
//! pairs summed with the reference group law of `refmodel`).
//!
//! `run_*` functions drive the real library and are compiled into both the
//! serial and the parallel build; `expect_*` functions are the reference model.

use crate::ops::{KindInfo, Op};
use ark_ec::scalar_mul::variable_base::verif_hooks;
use ark_ec::short_weierstrass as sw;
use ark_ec::twisted_edwards as te;
use ark_ec::{
    scalar_mul::variable_base::{ChunkedPippenger, HashMapPippenger},
    CurveGroup, PrimeGroup, VariableBaseMSM,
};
use ark_ff::{AdditiveGroup, BigInteger, Field, PrimeField, UniformRand, Zero};
use ark_serialize::CanonicalSerialize;
use ark_test_curves::bls12_381 as bls;
use ark_test_curves::bn384_small_two_adicity as bn384;
use ark_test_curves::ed_on_bls12_381 as jub;
use ark_test_curves::secp256k1 as secp;
use num_bigint::BigUint;
use refmodel::{modulus, to_biguint, RefGroup, SwRef, TeRef};
use simkit::Rng;

fn ser<T: CanonicalSerialize>(t: &T) -> Vec<u8> {
    let mut b = Vec::new();
    t.serialize_uncompressed(&mut b).expect("serialize to Vec");
    b
}

/// Bridges a library group to its reference implementation.
pub trait Bridge: VariableBaseMSM + CurveGroup {
    type R: RefGroup;
    fn mb(a: &Self::Affine) -> Self::MulBase;
    fn coords(a: &Self::Affine) -> Option<<Self::R as RefGroup>::Aff>;
    fn from_coords(c: Option<<Self::R as RefGroup>::Aff>) -> Self::Affine;
}

impl<P: sw::SWCurveConfig> Bridge for sw::Projective<P> {
    type R = SwRef<P>;
    fn mb(a: &sw::Affine<P>) -> sw::Affine<P> {
        *a
    }
    fn coords(a: &sw::Affine<P>) -> Option<(P::BaseField, P::BaseField)> {
        if a.infinity {
            None
        } else {
            Some((a.x, a.y))
        }
    }
    fn from_coords(c: Option<(P::BaseField, P::BaseField)>) -> sw::Affine<P> {
        match c {
            None => sw::Affine::<P>::identity(),
            Some((x, y)) => sw::Affine::<P>::new_unchecked(x, y),
        }
    }
}

impl<P: te::TECurveConfig> Bridge for te::Projective<P> {
    type R = TeRef<P>;
    fn mb(a: &te::Affine<P>) -> te::Affine<P> {
        *a
    }
    fn coords(a: &te::Affine<P>) -> Option<(P::BaseField, P::BaseField)> {
        Some((a.x, a.y))
    }
    fn from_coords(c: Option<(P::BaseField, P::BaseField)>) -> te::Affine<P> {
        match c {
            None => te::Affine::<P>::zero(),
            Some((x, y)) => te::Affine::<P>::new_unchecked(x, y),
        }
    }
}

/// The history: a pool of bases and a sequence of (base index, scalar).
pub struct History<G: Bridge> {
    pub pool: Vec<G::Affine>,
    pub adds: Vec<(usize, G::ScalarField)>,
}

fn edge_scalar<F: PrimeField>(rng: &mut Rng) -> F {
    let bits = F::MODULUS_BIT_SIZE as usize;
    match rng.below(16) {
        0 => F::zero(),
        1 => F::one(),
        2 => F::from(2u64),
        3 => -F::one(),
        4 => -F::from(2u64),
        5 => F::from(2u64).pow([rng.below(bits - 1) as u64]),
        6 => F::from(2u64).pow([rng.below(bits - 1) as u64]) - F::one(),
        7 => F::from(2u64).pow([rng.below(bits - 1) as u64]) + F::one(),
        8 => {
            // all-ones windows: 2^k - 1 shifted
            let k = rng.range(1, 20);
            let s = rng.below(bits - k - 1);
            (F::from(2u64).pow([k as u64]) - F::one()) * F::from(2u64).pow([s as u64])
        },
        9 => F::from(rng.below(40) as u64),
        10 => -F::from(rng.below(40) as u64),
        _ => F::rand(rng),
    }
}

pub fn history<G: Bridge>(op: &Op) -> History<G> {
    let mut rng = Rng::new(op.seed);
    let psize = (((op.c >> 8) & 0xff) as usize).clamp(1, 12);
    let g = G::generator();
    let p0 = g * G::ScalarField::rand(&mut rng);
    let mut pool_proj: Vec<G> = Vec::with_capacity(psize);
    for i in 0..psize {
        let p = match i {
            0 => p0,
            1 => -p0,
            2 => G::zero(),
            3 => g,
            4 => p0.double(),
            _ => g * G::ScalarField::rand(&mut rng),
        };
        pool_proj.push(p);
    }
    let pool = G::normalize_batch(&pool_proj);
    let n = op.a as usize;
    // few distinct bases early on make repeats (and, for the hash map, merges) frequent
    let adds = (0..n).map(|_| (rng.below(psize), edge_scalar::<G::ScalarField>(&mut rng))).collect();
    History { pool, adds }
}

/// Prefix lengths at which the history is replayed: around predicted flushes.
pub fn prefixes(n: usize, buf: usize) -> Vec<usize> {
    let mut v = vec![n];
    let b = buf.max(1);
    for k in [b, 2 * b, 3 * b] {
        for d in [-1i64, 0, 1] {
            let l = k as i64 + d;
            if l >= 0 && (l as usize) <= n {
                v.push(l as usize);
            }
        }
    }
    v.push(0);
    if n > 0 {
        v.push(n - 1);
    }
    v.sort_unstable();
    v.dedup();
    // keep n, 0 and the ones nearest to flush boundaries; at most 8
    while v.len() > 8 {
        let mid = v.len() / 2;
        v.remove(mid);
    }
    v
}

fn run_chunked_g<G: Bridge>(op: &Op) -> Vec<u8> {
    let h = history::<G>(op);
    let buf = op.b as usize;
    let mut out = vec![];
    for l in prefixes(h.adds.len(), buf) {
        let mut acc = if op.c & 0x10 == 0 { ChunkedPippenger::<G>::new(buf) } else { ChunkedPippenger::<G>::with_size(buf) };
        for (bi, s) in &h.adds[..l] {
            if op.c & 0x20 == 0 {
                acc.add(G::mb(&h.pool[*bi]), s.into_bigint());
            } else {
                acc.add(&G::mb(&h.pool[*bi]), &s.into_bigint());
            }
        }
        out.extend(ser(&acc.finalize().into_affine()));
    }
    out
}

fn run_hashmap_g<G: Bridge>(op: &Op) -> Vec<u8> {
    let h = history::<G>(op);
    let buf = op.b as usize;
    let mut out = vec![];
    for l in prefixes(h.adds.len(), buf) {
        let mut acc = HashMapPippenger::<G>::new(buf);
        for (bi, s) in &h.adds[..l] {
            if op.c & 0x20 == 0 {
                acc.add(G::mb(&h.pool[*bi]), *s);
            } else {
                acc.add(&G::mb(&h.pool[*bi]), s);
            }
        }
        out.extend(ser(&acc.finalize().into_affine()));
    }
    out
}

/// Reference: sum over the prefix of k_i * P_i, computed per distinct base
/// with the scalars added modulo the group order (the bases are multiples of
/// the generator, hence of prime order r).
fn model_sum<G: Bridge>(h: &History<G>, l: usize) -> Option<Vec<u8>> {
    let r = modulus::<G::ScalarField>();
    let mut per_base: Vec<BigUint> = vec![BigUint::default(); h.pool.len()];
    for (bi, s) in &h.adds[..l] {
        per_base[*bi] = (&per_base[*bi] + to_biguint(s)) % &r;
    }
    let pairs: Vec<_> = h.pool.iter().zip(per_base).map(|(p, k)| (G::coords(p), k)).collect();
    let sum: G::R = refmodel::naive_msm(&pairs)?;
    let aff = sum.to_affine()?;
    Some(ser(&G::from_coords(aff)))
}

fn expect_hist_g<G: Bridge>(op: &Op) -> Option<Vec<u8>> {
    let h = history::<G>(op);
    let mut out = vec![];
    for l in prefixes(h.adds.len(), op.b as usize) {
        out.extend(model_sum::<G>(&h, l)?);
    }
    Some(out)
}

macro_rules! by_group {
    ($op:expr, $f:ident) => {
        match $op.c & 0xf {
            0 => $f::<bls::G1Projective>($op),
            1 => $f::<bls::G2Projective>($op),
            2 => $f::<secp::G1Projective>($op),
            3 => $f::<bn384::G1Projective>($op),
            _ => $f::<jub::Projective>($op),
        }
    };
}

fn run_chunked(op: &Op) -> Vec<u8> {
    by_group!(op, run_chunked_g)
}
fn run_hashmap(op: &Op) -> Vec<u8> {
    by_group!(op, run_hashmap_g)
}
fn expect_hist(op: &Op) -> Option<Vec<u8>> {
    by_group!(op, expect_hist_g)
}

fn gen_hist(rng: &mut Rng) -> (u64, u64, u64) {
    let n = match rng.below(10) {
        0 => rng.below(3),
        1..=5 => rng.below(24),
        6..=8 => rng.below(48),
        _ => {
            if rng.chance(1, 6) {
                rng.range(257, 700)
            } else {
                rng.range(48, 200)
            }
        },
    };
    let buf = match rng.below(9) {
        0 => 1,
        1 => 2,
        2 => 3,
        3 => n.saturating_sub(1),
        4 => n,
        5 => n + 1,
        6 => 2 * n,
        7 => 0,
        _ => rng.range(1, 40),
    };
    // a long history with a tiny buffer means one full bucket pass per add: keep those rare
    let buf = if n > 60 && buf < 4 && !rng.chance(1, 4) { rng.range(8, 40) } else { buf };
    let buf = if n > 256 && buf < 100 { rng.range(100, 600) } else { buf };
    let group = *rng.pick(&[0u64, 0, 0, 1, 2, 3, 4, 4]);
    let psize = rng.range(1, 8) as u64;
    // the hash-map accumulator flushes on the number of DISTINCT bases: buffer sizes at and just
    // below the pool size make that happen late in the history
    let buf = if rng.chance(1, 6) { (psize as usize).saturating_sub(rng.below(2)) } else { buf };
    (n as u64, buf as u64, group | (rng.below(4) as u64) << 4 | psize << 8)
}

// ---------------------------------------------------------------- direct entry points

/// bit 12 of c: a stream longer than msm_chunks' hard-coded step of 2^20, with scalars that
/// are zero except at a few positions (so that the sum stays cheap on both sides)
const LONG_SPARSE: u64 = 1 << 12;

fn long_sparse_inputs<G: Bridge>(op: &Op) -> (Vec<G::Affine>, Vec<G::ScalarField>) {
    let mut rng = Rng::new(op.seed);
    let n = op.a as usize;
    let m = if op.b == u64::MAX { n } else { op.b as usize };
    let g = G::generator();
    let pool = G::normalize_batch(&[g, g.double(), g * G::ScalarField::rand(&mut rng), g * G::ScalarField::rand(&mut rng)]);
    // four different bases, constant over stretches of 2^18: every chunk of 2^20 sees all of
    // them, and the chunk boundary falls between stretches
    // (the second chunk starts with a base that differs from the first chunk's first base)
    let bases: Vec<G::Affine> = (0..n).map(|i| if i >= 1 << 20 { pool[1] } else { pool[(i >> 18) & 3] }).collect();
    let scalars: Vec<G::ScalarField> = (0..m)
        .map(|i| if i % 65521 == 7 || i + 3 >= m || (i >> 1) == (1 << 19) { edge_scalar::<G::ScalarField>(&mut rng) } else { G::ScalarField::zero() })
        .collect();
    (bases, scalars)
}

fn direct_inputs<G: Bridge>(op: &Op) -> (Vec<G::Affine>, Vec<G::ScalarField>) {
    if op.c & LONG_SPARSE != 0 {
        return long_sparse_inputs::<G>(op);
    }
    let mut hop = op.clone();
    let n = op.a as usize;
    let m = if op.b == u64::MAX { n } else { op.b as usize };
    hop.a = n.max(m) as u64;
    let h = history::<G>(&hop);
    let bases: Vec<G::Affine> = h.adds.iter().take(n).map(|(bi, _)| h.pool[*bi]).collect();
    let scalars: Vec<G::ScalarField> = h.adds.iter().take(m).map(|(_, s)| *s).collect();
    (bases, scalars)
}

fn run_direct_g<G: Bridge>(op: &Op) -> Vec<u8> {
    let (b, s) = direct_inputs::<G>(op);
    let b: Vec<G::MulBase> = b.iter().map(G::mb).collect();
    let bi: Vec<_> = s.iter().map(|x| x.into_bigint()).collect();
    let k = b.len().min(s.len());
    match (op.c >> 4) & 0xf {
        0 => match G::msm(&b, &s) {
            Ok(r) => ser(&r.into_affine()),
            Err(e) => format!("err:{}", e).into_bytes(),
        },
        1 => ser(&G::msm_unchecked(&b, &s).into_affine()),
        2 => ser(&G::msm_bigint(&b, &bi).into_affine()),
        3 => {
            // msm_chunks requires #scalars <= #bases and pairs the scalars with the LAST
            // #scalars bases ("align the streams")
            let sk = &s[..k];
            ser(&G::msm_chunks(&&b[..], &sk).into_affine())
        },
        4 => ser(&verif_hooks::msm_bigint_plain::<G>(&b, &bi).into_affine()),
        _ => ser(&verif_hooks::msm_bigint_signed::<G>(&b, &bi).into_affine()),
    }
}

fn expect_direct_g<G: Bridge>(op: &Op) -> Option<Vec<u8>> {
    let (b, s) = direct_inputs::<G>(op);
    if (op.c >> 4) & 0xf == 0 && b.len() != s.len() {
        return Some(format!("err:{}", b.len().min(s.len())).into_bytes());
    }
    let k = b.len().min(s.len());
    let off = if (op.c >> 4) & 0xf == 3 { b.len() - k } else { 0 };
    let pairs: Vec<_> = b[off..off + k]
        .iter()
        .zip(&s[..k])
        .filter(|(_, x)| !x.is_zero())
        .map(|(p, x)| (G::coords(p), to_biguint(x)))
        .collect();
    let sum: G::R = refmodel::naive_msm(&pairs)?;
    Some(ser(&G::from_coords(sum.to_affine()?)))
}

fn run_direct(op: &Op) -> Vec<u8> {
    by_group!(op, run_direct_g)
}
fn expect_direct(op: &Op) -> Option<Vec<u8>> {
    by_group!(op, expect_direct_g)
}
fn gen_direct(rng: &mut Rng) -> (u64, u64, u64) {
    // the window width is 3 below 32 terms and ln(n)+2 above: 5 (32..), 6 (64..), 7 (256),
    // 8 (257..1024), 9 (..2048), 10 (..8192); every class is visited
    let n = match rng.below(16) {
        0 | 1 => rng.below(3),
        2..=5 => rng.range(28, 36),
        6..=8 => rng.below(28),
        9..=11 => rng.range(36, 120),
        12 => rng.range(120, 257),
        13 => rng.range(257, 600),
        14 => rng.range(600, 1100),
        _ => rng.range(1100, 2300),
    };
    let m = if rng.chance(3, 4) { u64::MAX } else { rng.below(n + 4) as u64 };
    let group = *rng.pick(&[0u64, 0, 1, 2, 3, 4]);
    let variant = rng.below(6) as u64;
    let psize = rng.range(1, 12) as u64;
    if rng.below(400) == 0 {
        // msm_chunks walks its streams in steps of 2^20: one stream longer than that, now and then
        // (an exact multiple of the step is its own boundary case)
        let n = (1u64 << 20) + if rng.chance(1, 3) { 0 } else { rng.range(1, 40) as u64 };
        let m = if rng.chance(1, 2) { u64::MAX } else { n - rng.below(3) as u64 };
        return (n, m, *rng.pick(&[0u64, 4]) | 3 << 4 | LONG_SPARSE);
    }
    (n as u64, m, group | variant << 4 | psize << 8)
}

// ---------------------------------------------------------------- signed-digit recoding

fn digits_inputs(op: &Op) -> (Vec<bls::Fr>, usize) {
    let mut rng = Rng::new(op.seed);
    let w = (op.b as usize).clamp(1, 20);
    ((0..op.a as usize).map(|_| edge_scalar::<bls::Fr>(&mut rng)).collect(), w)
}

/// Output per scalar: the value reconstructed from the digits (as a field
/// element) and whether every digit stayed within [-2^w, 2^w].
fn run_digits(op: &Op) -> Vec<u8> {
    let (scalars, w) = digits_inputs(op);
    let bits = bls::Fr::MODULUS_BIT_SIZE as usize;
    let mut out = vec![];
    for s in &scalars {
        let d = verif_hooks::make_digits(&s.into_bigint(), w, bits);
        let mut acc = bls::Fr::zero();
        let radix = bls::Fr::from(2u64).pow([w as u64]);
        let mut in_range = d.len() == bits.div_ceil(w);
        for &di in d.iter().rev() {
            acc *= radix;
            if di >= 0 {
                acc += bls::Fr::from(di as u64);
            } else {
                acc -= bls::Fr::from((-di) as u64);
            }
            if di.unsigned_abs() > (1u64 << w) {
                in_range = false;
            }
        }
        out.extend(ser(&acc));
        out.push(in_range as u8);
    }
    out
}
fn expect_digits(op: &Op) -> Option<Vec<u8>> {
    let (scalars, _) = digits_inputs(op);
    let mut out = vec![];
    for s in &scalars {
        out.extend(ser(s));
        out.push(1);
    }
    Some(out)
}
fn gen_digits(rng: &mut Rng) -> (u64, u64, u64) {
    (rng.range(1, 40) as u64, rng.range(1, 17) as u64, 0)
}

// ---------------------------------------------------------------- the target group as an MSM group

type Gt = ark_ec::pairing::PairingOutput<bls::Bls12_381>;

fn gt_inputs(op: &Op) -> (Vec<Gt>, Vec<(usize, bls::Fr)>) {
    let mut rng = Rng::new(op.seed);
    let g = Gt::generator();
    let psize = (((op.c >> 8) & 0xff) as usize).clamp(1, 6);
    let p0 = g * bls::Fr::rand(&mut rng);
    let pool: Vec<Gt> = (0..psize)
        .map(|i| match i {
            0 => p0,
            1 => -p0,
            2 => Gt::zero(),
            3 => g,
            _ => g * bls::Fr::rand(&mut rng),
        })
        .collect();
    let adds = (0..op.a as usize).map(|_| (rng.below(psize), edge_scalar::<bls::Fr>(&mut rng))).collect();
    (pool, adds)
}

fn run_gt(op: &Op) -> Vec<u8> {
    let (pool, adds) = gt_inputs(op);
    let buf = op.b as usize;
    match (op.c >> 4) & 0xf {
        0 => {
            let mut acc = ChunkedPippenger::<Gt>::new(buf);
            for (bi, s) in &adds {
                acc.add(pool[*bi], s.into_bigint());
            }
            ser(&acc.finalize())
        },
        1 => {
            let mut acc = HashMapPippenger::<Gt>::new(buf);
            for (bi, s) in &adds {
                acc.add(pool[*bi], *s);
            }
            ser(&acc.finalize())
        },
        v => {
            let b: Vec<Gt> = adds.iter().map(|(bi, _)| pool[*bi]).collect();
            let s: Vec<bls::Fr> = adds.iter().map(|(_, s)| *s).collect();
            let bi: Vec<_> = s.iter().map(|x| x.into_bigint()).collect();
            match v {
                2 => {
                    // the checked entry point of a group that uses the trait's default `msm`:
                    // equal lengths, or one side shortened by one or two (buffer-size parameter)
                    let (bb, ss) = match op.b % 5 {
                        1 if !b.is_empty() => (&b[..b.len() - 1], &s[..]),
                        2 if !s.is_empty() => (&b[..], &s[..s.len() - 1]),
                        3 if s.len() > 1 => (&b[..], &s[..s.len() - 2]),
                        _ => (&b[..], &s[..]),
                    };
                    match Gt::msm(bb, ss) {
                        Ok(r) => ser(&r),
                        Err(k) => format!("err:{}", k).into_bytes(),
                    }
                },
                3 => ser(&Gt::msm_bigint(&b, &bi)),
                4 => ser(&verif_hooks::msm_bigint_plain::<Gt>(&b, &bi)),
                _ => ser(&verif_hooks::msm_bigint_signed::<Gt>(&b, &bi)),
            }
        },
    }
}

/// Reference: the target group written multiplicatively in Fq12 — plain
/// square-and-multiply on field operations (no cyclotomic shortcuts).
fn expect_gt(op: &Op) -> Option<Vec<u8>> {
    let (pool, adds) = gt_inputs(op);
    if (op.c >> 4) & 0xf == 2 {
        let n = adds.len();
        let (nb, ns) = match op.b % 5 {
            1 if n > 0 => (n - 1, n),
            2 if n > 0 => (n, n - 1),
            3 if n > 1 => (n, n - 2),
            _ => (n, n),
        };
        if nb != ns {
            return Some(format!("err:{}", nb.min(ns)).into_bytes());
        }
    }
    let r = modulus::<bls::Fr>();
    let mut per_base: Vec<BigUint> = vec![BigUint::default(); pool.len()];
    for (bi, s) in &adds {
        per_base[*bi] = (&per_base[*bi] + to_biguint(s)) % &r;
    }
    let mut acc = bls::Fq12::ONE;
    for (p, k) in pool.iter().zip(per_base) {
        let mut t = bls::Fq12::ONE;
        for i in (0..k.bits()).rev() {
            t = t.square();
            if k.bit(i) {
                t *= p.0;
            }
        }
        acc *= t;
    }
    Some(ser(&ark_ec::pairing::PairingOutput::<bls::Bls12_381>(acc)))
}
fn gen_gt(rng: &mut Rng) -> (u64, u64, u64) {
    let n = match rng.below(4) {
        0 => rng.below(4),
        1 => rng.range(28, 36),
        _ => rng.below(40),
    };
    let buf = *rng.pick(&[0usize, 1, 2, 3, n, n + 1, 7]);
    (n as u64, buf as u64, (rng.below(6) as u64) << 4 | (rng.range(1, 6) as u64) << 8)
}

/// Human-readable rendering of a C05 operation descriptor (informational; replay uses the descriptor).
pub fn describe(op: &Op) -> serde_json::Value {
    use serde_json::json;
    let groups = ["BLS12-381 G1", "BLS12-381 G2", "secp256k1", "bn384 G1", "Jubjub (twisted Edwards)"];
    let group = groups[((op.c & 0xf) as usize).min(4)];
    match op.kind.as_str() {
        "hist_chunked" | "hist_hashmap" => json!({
            "accumulator": if op.kind == "hist_chunked" { "ChunkedPippenger" } else { "HashMapPippenger" },
            "group": group, "constructor": if op.c & 0x10 == 0 { "new" } else { "with_size" },
            "add_by_reference": op.c & 0x20 != 0, "base_pool_size": ((op.c >> 8) & 0xff).clamp(1, 12),
            "adds": op.a, "buffer_size": op.b, "replayed_prefix_lengths": prefixes(op.a as usize, op.b as usize),
            "history": "pool = [P, -P, identity, G, 2P, random...]; each add draws (pool index, scalar) from the seed; scalars biased to 0, 1, 2, r-1, r-2, 2^k, 2^k+-1, runs of ones, small and small negative values",
        }),
        "msm_direct" => json!({
            "entry_point": (["msm (checked)", "msm_unchecked", "msm_bigint", "msm_chunks", "plain-bucket msm_bigint (verif-hooks)", "signed-digit msm_bigint (verif-hooks)"][(((op.c >> 4) & 0xf) as usize).min(5)]),
            "group": group, "bases": op.a, "scalars": if op.b == u64::MAX { op.a } else { op.b },
        }),
        "gt_msm" => json!({
            "group": "PairingOutput<Bls12_381>",
            "entry_point": (["ChunkedPippenger", "HashMapPippenger", "msm", "msm_bigint", "plain-bucket hook", "signed-digit hook"][(((op.c >> 4) & 0xf) as usize).min(5)]),
            "pairs": op.a, "buffer_size": op.b,
        }),
        "digits" => json!({"make_digits": {"scalars": op.a, "window": op.b.clamp(1, 20)}}),
        _ => serde_json::Value::Null,
    }
}

pub fn kinds() -> Vec<KindInfo> {
    vec![
        KindInfo { name: "hist_chunked", prop: "C05", weight: 10, gen: gen_hist, run: run_chunked, expect: Some(expect_hist), doc: "ChunkedPippenger history replayed on up to 8 prefixes; a=#adds b=buffer size c: bits0-3 group (G1,G2,secp256k1,bn384 G1,Jubjub), bit4 with_size, bit5 add by reference, bits8+ size of the base pool" },
        KindInfo { name: "hist_hashmap", prop: "C05", weight: 10, gen: gen_hist, run: run_hashmap, expect: Some(expect_hist), doc: "HashMapPippenger history replayed on up to 8 prefixes; parameters as hist_chunked" },
        KindInfo { name: "msm_direct", prop: "C05", weight: 10, gen: gen_direct, run: run_direct, expect: Some(expect_direct), doc: "a=#bases b=#scalars (MAX=same) c: bits0-3 group, bits4-7 entry point (msm, msm_unchecked, msm_bigint, msm_chunks, plain-bucket hook, signed-digit hook)" },
        KindInfo { name: "gt_msm", prop: "C05", weight: 2, gen: gen_gt, run: run_gt, expect: Some(expect_gt), doc: "PairingOutput<Bls12_381> as the MSM group: a=#pairs b=buffer size c: bits4-7 entry point (ChunkedPippenger, HashMapPippenger, msm, msm_bigint, plain-bucket hook, signed-digit hook), bits8+ pool size" },
        KindInfo { name: "digits", prop: "C05", weight: 3, gen: gen_digits, run: run_digits, expect: Some(expect_digits), doc: "make_digits hook: a=#scalars b=window width; digits must recompose to the scalar" },
    ]
}
