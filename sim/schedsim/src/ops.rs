//! Operation catalogue of engine B: every site of the repository that has a
//! `parallel` branch or reads the pool size, driven through the public API.
//! The same source is compiled into the serial oracle and into the
//! parallel-under-simulation build; inputs are derived from the descriptor
//! through the harness PRNG and serial code only.

use ark_ec::pairing::Pairing;
use ark_ec::scalar_mul::BatchMulPreprocessing;
use ark_ec::{AffineRepr, CurveGroup, PrimeGroup, ScalarMul, VariableBaseMSM};
use ark_ff::{batch_inversion, batch_inversion_and_mul, BigInteger, FftField, Field, One, PrimeField, UniformRand, Zero};
use ark_poly::polynomial::multivariate::{SparsePolynomial as MvSparse, SparseTerm, Term};
use ark_poly::univariate::{DensePolynomial, SparsePolynomial};
use ark_poly::{
    DenseMVPolynomial, DenseMultilinearExtension, DenseUVPolynomial, EvaluationDomain, Evaluations,
    GeneralEvaluationDomain, MixedRadixEvaluationDomain, MultilinearExtension, Polynomial,
    Radix2EvaluationDomain, SparseMultilinearExtension,
};
use ark_serialize::{CanonicalDeserialize, CanonicalSerialize, Compress, Validate};
use ark_test_curves::bls12_381 as bls;
use ark_test_curves::bn384_small_two_adicity as bn384;
use ark_test_curves::ed_on_bls12_381 as jub;
use serde_json::{json, Value};
use simkit::Rng;

type Fr = bls::Fr;
type G1 = bls::G1Projective;
type G1A = bls::G1Affine;
type G2 = bls::G2Projective;
type G2A = bls::G2Affine;
type Fm = bn384::Fr;

#[derive(Clone, Debug, PartialEq)]
pub struct Op {
    pub kind: String,
    pub a: u64,
    pub b: u64,
    pub c: u64,
    pub seed: u64,
}

impl Op {
    pub fn to_json(&self) -> Value {
        json!({"kind": self.kind, "a": self.a, "b": self.b, "c": self.c, "seed": self.seed.to_string()})
    }
    pub fn from_json(v: &Value) -> Op {
        Op {
            kind: v["kind"].as_str().unwrap_or("").to_string(),
            a: v["a"].as_u64().unwrap_or(0),
            b: v["b"].as_u64().unwrap_or(0),
            c: v["c"].as_u64().unwrap_or(0),
            seed: v["seed"].as_str().and_then(|s| s.parse().ok()).unwrap_or(0),
        }
    }
    /// coarse size class for the distinct count
    pub fn size_class(&self) -> u64 {
        64 - self.a.leading_zeros() as u64
    }
}

pub struct KindInfo {
    pub name: &'static str,
    pub prop: &'static str,
    pub weight: u32,
    pub gen: fn(&mut Rng) -> (u64, u64, u64),
    pub run: fn(&Op) -> Vec<u8>,
    /// reference-model answer (None = the serial build is the only oracle)
    pub expect: Option<fn(&Op) -> Option<Vec<u8>>>,
    /// what the parameters mean (for the evidence file)
    pub doc: &'static str,
}

fn ser<T: CanonicalSerialize>(t: &T) -> Vec<u8> {
    let mut b = Vec::new();
    t.serialize_uncompressed(&mut b).expect("serialize to Vec");
    b
}

fn f<F: Field>(rng: &mut Rng) -> F {
    match rng.below(16) {
        0 => F::zero(),
        1 => F::one(),
        2 => -F::one(),
        _ => F::rand(rng),
    }
}
fn fvec<F: Field>(rng: &mut Rng, n: usize) -> Vec<F> {
    (0..n).map(|_| f(rng)).collect()
}
fn nz<F: Field>(rng: &mut Rng) -> F {
    loop {
        let x = F::rand(rng);
        if !x.is_zero() {
            return x;
        }
    }
}

/// sizes that straddle a threshold t
fn around(rng: &mut Rng, t: usize) -> usize {
    match rng.below(5) {
        0 => t.saturating_sub(1),
        1 => t,
        2 => t + 1,
        3 => rng.range(0, t),
        _ => rng.range(t, 2 * t + 2),
    }
}

// ---------------------------------------------------------------- FFT family

fn domain_variant<F: FftField, D: EvaluationDomain<F>>(d: D, v: u64, rng: &mut Rng) -> (D, u64) {
    // v bits 0..1: 0 fft, 1 ifft, 2 coset fft, 3 coset ifft
    if v & 2 != 0 {
        let off = nz::<F>(rng);
        (d.get_coset(off).expect("coset"), v & 1)
    } else {
        (d, v & 1)
    }
}

fn run_fft_on<F: FftField, D: EvaluationDomain<F>>(d: D, op: &Op, rng: &mut Rng) -> Vec<u8> {
    let (d, inv) = domain_variant::<F, D>(d, op.c, rng);
    let len = (op.b as usize).min(d.size());
    let input: Vec<F> = fvec(rng, len);
    let out = if inv == 0 { d.fft(&input) } else { d.ifft(&input) };
    ser(&out)
}

fn run_fft(op: &Op) -> Vec<u8> {
    let mut rng = Rng::new(op.seed);
    let size = 1usize << op.a.min(15);
    if op.c & 4 == 0 {
        run_fft_on::<Fr, _>(Radix2EvaluationDomain::<Fr>::new(size).unwrap(), op, &mut rng)
    } else {
        run_fft_on::<Fr, _>(GeneralEvaluationDomain::<Fr>::new(size).unwrap(), op, &mut rng)
    }
}
fn gen_fft(rng: &mut Rng) -> (u64, u64, u64) {
    // thresholds: 2^10 input size, chunk compaction at 2^7, roots recursion above 2^7 / 2^9
    let a = *rng.pick(&[0u64, 1, 2, 3, 5, 6, 7, 8, 9, 9, 10, 10, 11, 11, 12, 12, 13, 14]);
    let size = 1u64 << a;
    let b = match rng.below(6) {
        0 => 0,
        1 => 1,
        2 => size,
        3 => size,
        4 => size / 2 + rng.below(2) as u64,
        _ => rng.below(size as usize + 1) as u64,
    };
    (a, b, rng.below(8) as u64)
}

fn run_fft_group(op: &Op) -> Vec<u8> {
    let mut rng = Rng::new(op.seed);
    let size = 1usize << op.a.min(11);
    let d = Radix2EvaluationDomain::<Fr>::new(size).unwrap();
    let (d, inv) = domain_variant::<Fr, _>(d, op.c, &mut rng);
    let len = (op.b as usize).min(size);
    let g = G1::generator();
    let mut cur = g * Fr::rand(&mut rng);
    let input: Vec<G1> = (0..len)
        .map(|i| {
            if i % 7 == 3 {
                G1::zero()
            } else {
                cur += g;
                cur
            }
        })
        .collect();
    let out = if inv == 0 { d.fft(&input) } else { d.ifft(&input) };
    ser(&G1::normalize_batch(&out))
}
fn gen_fft_group(rng: &mut Rng) -> (u64, u64, u64) {
    let a = *rng.pick(&[0u64, 2, 5, 7, 8, 9, 10, 10, 11]);
    let size = 1u64 << a;
    (a, if rng.chance(1, 2) { size } else { rng.below(size as usize + 1) as u64 }, rng.below(4) as u64)
}

fn run_fft_mixed(op: &Op) -> Vec<u8> {
    let mut rng = Rng::new(op.seed);
    let n = (op.a as usize).max(1);
    let Some(d) = MixedRadixEvaluationDomain::<Fm>::new(n) else { return b"no-domain".to_vec() };
    let mut h = (d.size() as u64).to_le_bytes().to_vec();
    if op.c & 4 == 0 {
        h.extend(run_fft_on::<Fm, _>(d, op, &mut rng));
    } else {
        let g = GeneralEvaluationDomain::<Fm>::new(n).unwrap();
        h.extend(run_fft_on::<Fm, _>(g, op, &mut rng));
    }
    h
}
fn gen_fft_mixed(rng: &mut Rng) -> (u64, u64, u64) {
    // bn384 Fr: two-adicity 12, small subgroup 3^2 => sizes 2^a*3^b
    let a = *rng.pick(&[1u64, 3, 9, 17, 100, 513, 1025, 1537, 2049, 3000, 4097, 4608, 6000, 9216, 12000, 18432, 36864]);
    (a, if rng.chance(1, 2) { u64::MAX } else { rng.below(a as usize + 1) as u64 }, rng.below(8) as u64)
}

// ---------------------------------------------------------------- evaluations / polynomials

fn run_evals_arith(op: &Op) -> Vec<u8> {
    let mut rng = Rng::new(op.seed);
    let size = 1usize << op.a.min(14);
    let d = GeneralEvaluationDomain::<Fr>::new(size).unwrap();
    let x = Evaluations::from_vec_and_domain(fvec::<Fr>(&mut rng, size), d);
    let y = Evaluations::from_vec_and_domain((0..size).map(|_| nz::<Fr>(&mut rng)).collect(), d);
    match op.c % 8 {
        0 => ser(&(&x * &y).evals),
        1 => ser(&(&x + &y).evals),
        2 => ser(&(&x - &y).evals),
        3 => ser(&(&x / &y).evals),
        4 => ser(&(&x * f::<Fr>(&mut rng)).evals),
        5 => ser(&x.interpolate_by_ref().coeffs),
        6 => ser(&d.mul_polynomials_in_evaluation_domain(&x.evals, &y.evals)),
        _ => {
            let mut z = x.clone();
            z *= &y;
            z += &x;
            z -= &y;
            z /= &y;
            ser(&z.interpolate().coeffs)
        },
    }
}
fn gen_evals_arith(rng: &mut Rng) -> (u64, u64, u64) {
    (*rng.pick(&[0u64, 1, 4, 7, 9, 10, 11, 12, 13]), 0, rng.below(8) as u64)
}

fn run_dense_eval(op: &Op) -> Vec<u8> {
    let mut rng = Rng::new(op.seed);
    let p = DensePolynomial::<Fr>::from_coefficients_vec(fvec(&mut rng, op.a as usize));
    let x = f::<Fr>(&mut rng);
    ser(&p.evaluate(&x))
}
fn gen_dense_eval(rng: &mut Rng) -> (u64, u64, u64) {
    // chunk floor is 16: lengths around multiples of 16 and of the pool size
    let a = match rng.below(6) {
        0 => rng.below(20),
        1 => around(rng, 16),
        2 => {
            let m = rng.range(2, 17);
            around(rng, 16 * m)
        },
        3 => around(rng, 256),
        _ => rng.below(1200),
    };
    (a as u64, 0, 0)
}

fn run_dense_arith(op: &Op) -> Vec<u8> {
    let mut rng = Rng::new(op.seed);
    let p = DensePolynomial::<Fr>::from_coefficients_vec(fvec(&mut rng, op.a as usize));
    let q = DensePolynomial::<Fr>::from_coefficients_vec(fvec(&mut rng, op.b as usize));
    let k = f::<Fr>(&mut rng);
    match op.c % 10 {
        0 => ser(&(&p + &q).coeffs),
        1 => ser(&(&p - &q).coeffs),
        2 => ser(&(&p * &q).coeffs),
        3 => ser(&(&p * k).coeffs),
        4 => {
            let mut r = p.clone();
            r += (k, &q);
            ser(&r.coeffs)
        },
        5 => {
            let mut r = p.clone();
            r += &q;
            r -= &q;
            r -= &p;
            ser(&r.coeffs)
        },
        6 => ser(&(-p).coeffs),
        7 => {
            let s = SparsePolynomial::<Fr>::from(q.clone());
            ser(&(&p + &s).coeffs)
        },
        8 => {
            let s = SparsePolynomial::<Fr>::from(q.clone());
            let mut r = p.clone();
            r -= &s;
            ser(&r.coeffs)
        },
        _ => {
            let s = SparsePolynomial::<Fr>::from(q.clone());
            let t = SparsePolynomial::<Fr>::from(p.clone());
            ser(&(&(&s * k) + &t).to_vec())
        },
    }
}
fn gen_dense_arith(rng: &mut Rng) -> (u64, u64, u64) {
    let a = *rng.pick(&[0usize, 1, 5, 63, 64, 65, 300, 1000, 2000, 4097]);
    let b = *rng.pick(&[0usize, 1, 7, 64, 200, 1000, 4096]);
    let c = rng.below(10) as u64;
    // FFT-based multiplication of two 4k polynomials is the expensive one; keep it rarer
    (a as u64, if c == 2 { b.min(1000) as u64 } else { b as u64 }, c)
}

fn run_vanishing(op: &Op) -> Vec<u8> {
    let mut rng = Rng::new(op.seed);
    let p = DensePolynomial::<Fr>::from_coefficients_vec(fvec(&mut rng, op.a as usize));
    let d = GeneralEvaluationDomain::<Fr>::new(1usize << op.b.min(12)).unwrap();
    if op.c % 2 == 0 {
        ser(&p.mul_by_vanishing_poly(d).coeffs)
    } else {
        let (q, r) = p.divide_by_vanishing_poly(d);
        let mut o = ser(&q.coeffs);
        o.extend(ser(&r.coeffs));
        o
    }
}
fn gen_vanishing(rng: &mut Rng) -> (u64, u64, u64) {
    let b = *rng.pick(&[0u64, 1, 3, 6, 8, 10]);
    let size = 1usize << b;
    let a = match rng.below(5) {
        0 => rng.below(size + 1),
        1 => size + rng.below(3),
        2 => 2 * size + rng.below(size + 1),
        3 => 3 * size + 1,
        _ => rng.below(5000),
    };
    (a as u64, b, rng.below(2) as u64)
}

fn run_eval_over_domain(op: &Op) -> Vec<u8> {
    let mut rng = Rng::new(op.seed);
    let size = 1usize << op.b.min(12);
    let d = GeneralEvaluationDomain::<Fr>::new(size).unwrap();
    let d = if op.c & 8 != 0 { d.get_coset(nz::<Fr>(&mut rng)).unwrap() } else { d };
    let coeffs: Vec<Fr> = fvec(&mut rng, op.a as usize);
    match op.c % 4 {
        0 => ser(&DensePolynomial::from_coefficients_vec(coeffs).evaluate_over_domain(d).evals),
        1 => ser(&DensePolynomial::from_coefficients_vec(coeffs).evaluate_over_domain_by_ref(d).evals),
        2 => {
            // sparse: keep about one coefficient in five
            let terms: Vec<(usize, Fr)> =
                coeffs.into_iter().enumerate().filter(|(i, _)| i % 5 == 2 || i % 17 == 0).collect();
            ser(&SparsePolynomial::from_coefficients_vec(terms).evaluate_over_domain(d).evals)
        },
        _ => {
            let terms: Vec<(usize, Fr)> = coeffs.into_iter().enumerate().filter(|(i, _)| i % 3 == 1).collect();
            let s = SparsePolynomial::from_coefficients_vec(terms);
            let x = f::<Fr>(&mut rng);
            let mut o = ser(&s.evaluate_over_domain_by_ref(d).evals);
            o.extend(ser(&s.evaluate(&x)));
            o
        },
    }
}
fn gen_eval_over_domain(rng: &mut Rng) -> (u64, u64, u64) {
    let b = *rng.pick(&[0u64, 2, 5, 8, 10, 11]);
    let size = 1usize << b;
    let a = match rng.below(5) {
        0 => rng.below(size + 1),
        1 => size,
        2 => size + 1 + rng.below(size + 1),
        3 => 4 * size + rng.below(7),
        _ => rng.below(6000),
    };
    let c = rng.below(16) as u64;
    // the sparse variants cost (#terms x domain size) exponentiations: keep them moderate
    let a = if c % 4 >= 2 { a.min(2500) } else { a };
    (a as u64, b, c)
}

fn run_lagrange(op: &Op) -> Vec<u8> {
    let mut rng = Rng::new(op.seed);
    let size = 1usize << op.a.min(13);
    let d = Radix2EvaluationDomain::<Fr>::new(size).unwrap();
    let d = if op.c & 4 != 0 { d.get_coset(nz::<Fr>(&mut rng)).unwrap() } else { d };
    let tau = match op.c % 4 {
        0 => d.element(rng.below(size)),
        1 => Fr::zero(),
        _ => Fr::rand(&mut rng),
    };
    let mut o = ser(&d.evaluate_all_lagrange_coefficients(tau));
    o.extend(ser(&d.evaluate_vanishing_polynomial(tau)));
    o
}
fn gen_lagrange(rng: &mut Rng) -> (u64, u64, u64) {
    (*rng.pick(&[0u64, 1, 3, 6, 8, 10, 11, 12]), 0, rng.below(8) as u64)
}

fn run_batch_inv(op: &Op) -> Vec<u8> {
    let mut rng = Rng::new(op.seed);
    let n = op.a as usize;
    let mut v: Vec<Fr> = (0..n)
        .map(|_| if op.b > 0 && rng.below(100) < op.b as usize { Fr::zero() } else { nz::<Fr>(&mut rng) })
        .collect();
    if op.c % 2 == 0 {
        batch_inversion(&mut v);
    } else {
        let k = f::<Fr>(&mut rng);
        batch_inversion_and_mul(&mut v, &k);
    }
    ser(&v)
}
fn gen_batch_inv(rng: &mut Rng) -> (u64, u64, u64) {
    let a = match rng.below(5) {
        0 => rng.below(8),
        1 => rng.below(40),
        2 => around(rng, 64),
        _ => rng.below(700),
    };
    (a as u64, *rng.pick(&[0u64, 0, 5, 30, 100]), rng.below(2) as u64)
}

// ---------------------------------------------------------------- group operations

fn bases<G: CurveGroup>(rng: &mut Rng, n: usize) -> Vec<G::Affine> {
    let g = G::generator();
    let mut cur = g * G::ScalarField::rand(rng);
    let v: Vec<G> = (0..n)
        .map(|i| {
            if i % 11 == 5 {
                G::zero()
            } else {
                cur += g;
                if i % 13 == 1 {
                    -cur
                } else {
                    cur
                }
            }
        })
        .collect();
    G::normalize_batch(&v)
}
fn scalars<F: PrimeField>(rng: &mut Rng, n: usize) -> Vec<F> {
    (0..n)
        .map(|_| match rng.below(12) {
            0 => F::zero(),
            1 => F::one(),
            2 => -F::one(),
            3 => F::from(2u64).pow([rng.below(F::MODULUS_BIT_SIZE as usize - 1) as u64]),
            _ => F::rand(rng),
        })
        .collect()
}

fn run_msm_g<G: VariableBaseMSM + CurveGroup>(op: &Op, rng: &mut Rng) -> Vec<u8>
where
    G::MulBase: From<G::Affine>,
{
    let n = op.a as usize;
    let m = if op.b == u64::MAX { n } else { op.b as usize };
    let b: Vec<G::MulBase> = bases::<G>(rng, n).into_iter().map(|x| <G::MulBase as From<G::Affine>>::from(x)).collect();
    let s: Vec<G::ScalarField> = scalars(rng, m);
    match (op.c / 4) % 4 {
        0 => match G::msm(&b, &s) {
            Ok(r) => ser(&r.into_affine()),
            Err(k) => format!("err:{}", k).into_bytes(),
        },
        1 => ser(&G::msm_unchecked(&b, &s).into_affine()),
        2 => {
            let bi: Vec<_> = s.iter().map(|x| x.into_bigint()).collect();
            ser(&G::msm_bigint(&b, &bi).into_affine())
        },
        _ => {
            let k = n.min(m);
            ser(&G::msm_chunks(&&b[..k], &&s[..k]).into_affine())
        },
    }
}
fn run_msm(op: &Op) -> Vec<u8> {
    let mut rng = Rng::new(op.seed);
    match op.c % 4 {
        0 | 1 => run_msm_g::<G1>(op, &mut rng),
        2 => run_msm_g::<G2>(op, &mut rng),
        _ => run_msm_g::<jub::Projective>(op, &mut rng),
    }
}
fn gen_msm(rng: &mut Rng) -> (u64, u64, u64) {
    let a = match rng.below(8) {
        0 => rng.below(4),
        1 | 2 => around(rng, 32),
        3 => rng.below(100),
        4 => around(rng, 256),
        5 => rng.range(700, 1700),
        _ => rng.below(700),
    };
    let b = if rng.chance(4, 5) { u64::MAX } else { rng.below(a + 3) as u64 };
    (a as u64, b, rng.below(16) as u64)
}

fn run_batch_mul(op: &Op) -> Vec<u8> {
    let mut rng = Rng::new(op.seed);
    let n = op.a as usize;
    let s: Vec<Fr> = scalars(&mut rng, n);
    let base = G1::generator() * Fr::rand(&mut rng);
    match op.c % 4 {
        3 => {
            // the explicit constructor with short scalars: few table rows, so a large pool has
            // more threads than rows
            let bits = (op.b as usize % 24).max(1);
            let t = BatchMulPreprocessing::with_num_scalars_and_scalar_size(base, n.max(1), bits);
            let small: Vec<Fr> = (0..n).map(|_| Fr::from(rng.u64() & ((1u64 << bits) - 1))).collect();
            ser(&t.batch_mul(&small))
        },
        0 => ser(&base.batch_mul(&s)),
        1 => {
            let t = BatchMulPreprocessing::new(base, (op.b as usize).max(1));
            ser(&t.batch_mul(&s))
        },
        _ => {
            let base = jub::Projective::generator() * jub::Fr::rand(&mut rng);
            let s: Vec<jub::Fr> = scalars(&mut rng, n);
            ser(&base.batch_mul(&s))
        },
    }
}
fn gen_batch_mul(rng: &mut Rng) -> (u64, u64, u64) {
    (rng.below(120) as u64, *rng.pick(&[1u64, 2, 3, 7, 9, 10, 16, 100, 1000]), rng.below(4) as u64)
}

fn run_normalize(op: &Op) -> Vec<u8> {
    let mut rng = Rng::new(op.seed);
    let n = op.a as usize;
    fn mk<G: CurveGroup>(rng: &mut Rng, n: usize) -> Vec<G> {
        let g = G::generator();
        let k = G::ScalarField::rand(rng);
        let mut cur = g * k;
        (0..n)
            .map(|i| {
                if rng.below(10) == 0 {
                    G::zero()
                } else {
                    // doubling and adding keep the representatives non-normalised
                    cur = cur.double() + g;
                    if i % 9 == 4 {
                        cur - cur
                    } else {
                        cur
                    }
                }
            })
            .collect()
    }
    match op.c % 3 {
        0 => ser(&G1::normalize_batch(&mk::<G1>(&mut rng, n))),
        1 => ser(&G2::normalize_batch(&mk::<G2>(&mut rng, n))),
        _ => ser(&jub::Projective::normalize_batch(&mk::<jub::Projective>(&mut rng, n))),
    }
}
fn gen_normalize(rng: &mut Rng) -> (u64, u64, u64) {
    let a = match rng.below(4) {
        0 => rng.below(5),
        1 => rng.below(40),
        _ => rng.below(500),
    };
    (a as u64, 0, rng.below(3) as u64)
}

fn run_pairing_e<E: Pairing>(op: &Op) -> Vec<u8> {
    let mut rng = Rng::new(op.seed);
    let n = op.a as usize;
    let mut ps: Vec<E::G1Affine> = vec![];
    let mut qs: Vec<E::G2Affine> = vec![];
    for i in 0..n {
        let p = if (op.b >> i) & 1 == 1 && i % 2 == 0 { E::G1::zero() } else { E::G1::generator() * E::ScalarField::rand(&mut rng) };
        let q = if (op.b >> i) & 1 == 1 && i % 2 == 1 { E::G2::zero() } else { E::G2::generator() * E::ScalarField::rand(&mut rng) };
        ps.push(p.into_affine());
        qs.push(q.into_affine());
    }
    if op.c & 1 == 0 {
        ser(&E::multi_miller_loop(ps, qs).0)
    } else {
        ser(&E::multi_pairing(ps, qs).0)
    }
}
fn run_pairing(op: &Op) -> Vec<u8> {
    match (op.c >> 1) % 6 {
        0 => run_pairing_e::<bls::Bls12_381>(op),
        1 => run_pairing_e::<ark_bn254::Bn254>(op),
        2 => run_pairing_e::<ark_bls12_377::Bls12_377>(op),
        3 => run_pairing_e::<ark_bw6_761::BW6_761>(op),
        4 => run_pairing_e::<ark_mnt4_298::MNT4_298>(op),
        _ => run_pairing_e::<ark_mnt6_298::MNT6_298>(op),
    }
}
fn gen_pairing(rng: &mut Rng) -> (u64, u64, u64) {
    // empty input and inputs in which every pair contains an identity are the degenerate cases
    let mask = match rng.below(6) {
        0 => 8191,
        1 | 2 => rng.below(8192) as u64,
        _ => 0,
    };
    (*rng.pick(&[0u64, 0, 1, 2, 3, 4, 5, 7, 8, 9, 10, 12, 13]), mask, rng.below(12) as u64)
}

fn run_h2c(op: &Op) -> Vec<u8> {
    use ark_ec::hashing::{curve_maps::wb::WBMap, map_to_curve_hasher::MapToCurveBasedHasher, HashToCurve};
    use ark_ff::field_hashers::DefaultFieldHasher;
    let mut rng = Rng::new(op.seed);
    let msg = rng.bytes(op.a as usize);
    let dst = b"QUUX-V01-CS02-with-BLS12381G1_XMD:SHA-256_SSWU_RO_";
    if op.c % 2 == 0 {
        let h = MapToCurveBasedHasher::<G1, DefaultFieldHasher<sha2::Sha256, 128>, WBMap<bls::g1::Config>>::new(dst).unwrap();
        ser(&h.hash(&msg).unwrap())
    } else {
        let h = MapToCurveBasedHasher::<G2, DefaultFieldHasher<sha2::Sha256, 128>, WBMap<bls::g2::Config>>::new(dst).unwrap();
        ser(&h.hash(&msg).unwrap())
    }
}
fn gen_h2c(rng: &mut Rng) -> (u64, u64, u64) {
    (rng.below(200) as u64, 0, rng.below(2) as u64)
}

fn run_batch_check(op: &Op) -> Vec<u8> {
    let mut rng = Rng::new(op.seed);
    let n = op.a as usize;
    fn off_subgroup(rng: &mut Rng) -> G1A {
        loop {
            let x = bls::Fq::rand(rng);
            if let Some(p) = G1A::get_point_from_x_unchecked(x, rng.chance(1, 2)) {
                return p;
            }
        }
    }
    let mut v: Vec<G1A> = bases::<G1>(&mut rng, n);
    if op.b != u64::MAX && n > 0 {
        let pos = (op.b as usize) % n;
        v[pos] = off_subgroup(&mut rng);
    }
    let compress = if op.c & 1 == 0 { Compress::Yes } else { Compress::No };
    let mut bytes = Vec::new();
    let res = match (op.c >> 1) % 10 {
        7 => {
            // twisted Edwards projective points: Projective::batch_check normalises the batch first
            let g = jub::Projective::generator();
            let mut w: Vec<jub::Projective> = (0..n).map(|i| g * jub::Fr::from(i as u64 + 2)).collect();
            if op.b != u64::MAX && n > 0 {
                // the point of order two, outside the subgroup
                w[(op.b as usize) % n] = jub::Affine::new_unchecked(jub::Fq::from(0u64), -jub::Fq::from(1u64)).into();
            }
            w.serialize_with_mode(&mut bytes, compress).unwrap();
            Vec::<jub::Projective>::deserialize_with_mode(&bytes[..], compress, Validate::Yes)
                .map(|r| ser(&jub::Projective::normalize_batch(&r)))
        },
        8 => {
            let w: std::collections::BTreeMap<u16, G1A> = v.iter().enumerate().map(|(i, p)| (i as u16, *p)).collect();
            w.serialize_with_mode(&mut bytes, compress).unwrap();
            std::collections::BTreeMap::<u16, G1A>::deserialize_with_mode(&bytes[..], compress, Validate::Yes).map(|r| ser(&r))
        },
        9 => {
            let w: std::collections::LinkedList<(G1A, G1A)> = v.iter().map(|p| (*p, G1A::generator())).collect();
            w.serialize_with_mode(&mut bytes, compress).unwrap();
            std::collections::LinkedList::<(G1A, G1A)>::deserialize_with_mode(&bytes[..], compress, Validate::Yes).map(|r| ser(&r))
        },
        4 => {
            // nested containers: each level forwards its elements to one batch check
            let w: Vec<Vec<G1A>> = v.chunks(3).map(|c| c.to_vec()).collect();
            w.serialize_with_mode(&mut bytes, compress).unwrap();
            Vec::<Vec<G1A>>::deserialize_with_mode(&bytes[..], compress, Validate::Yes).map(|r| ser(&r))
        },
        5 => {
            let w: Vec<[G1A; 2]> = v.chunks(2).map(|c| [c[0], *c.last().unwrap()]).collect();
            w.serialize_with_mode(&mut bytes, compress).unwrap();
            Vec::<[G1A; 2]>::deserialize_with_mode(&bytes[..], compress, Validate::Yes).map(|r| ser(&r))
        },
        6 => {
            let w: Vec<Option<G1A>> = v.iter().enumerate().map(|(i, p)| if i % 4 == 1 { None } else { Some(*p) }).collect();
            w.serialize_with_mode(&mut bytes, compress).unwrap();
            Vec::<Option<G1A>>::deserialize_with_mode(&bytes[..], compress, Validate::Yes).map(|r| ser(&r))
        },
        0 => {
            v.serialize_with_mode(&mut bytes, compress).unwrap();
            Vec::<G1A>::deserialize_with_mode(&bytes[..], compress, Validate::Yes).map(|r| ser(&r))
        },
        1 => {
            let w: Vec<G1> = v.iter().map(|p| (*p).into()).collect();
            w.serialize_with_mode(&mut bytes, compress).unwrap();
            Vec::<G1>::deserialize_with_mode(&bytes[..], compress, Validate::Yes).map(|r| ser(&G1::normalize_batch(&r)))
        },
        2 => {
            let w: Vec<(G1A, u8)> = v.iter().map(|p| (*p, 7u8)).collect();
            w.serialize_with_mode(&mut bytes, compress).unwrap();
            Vec::<(G1A, u8)>::deserialize_with_mode(&bytes[..], compress, Validate::Yes).map(|r| ser(&r))
        },
        _ => {
            let mut arr = [G1A::identity(); 5];
            for (i, p) in v.iter().take(5).enumerate() {
                arr[i] = *p;
            }
            arr.serialize_with_mode(&mut bytes, compress).unwrap();
            <[G1A; 5]>::deserialize_with_mode(&bytes[..], compress, Validate::Yes).map(|r| ser(&r))
        },
    };
    match res {
        Ok(b) => b,
        Err(_) => b"err".to_vec(),
    }
}
fn gen_batch_check(rng: &mut Rng) -> (u64, u64, u64) {
    let a = match rng.below(4) {
        0 => rng.below(4),
        1 => rng.below(20),
        _ => rng.below(80),
    };
    // the invalid element sits at the very end in four of ten cases (a dropped tail is the
    // characteristic failure of chunked parallel loops), at the front in one
    let b = match rng.below(10) {
        0..=2 => u64::MAX,
        3..=6 => a.saturating_sub(1) as u64,
        7 => 0,
        _ => rng.below(a + 1) as u64,
    };
    (a as u64, b, rng.below(20) as u64)
}

// ---------------------------------------------------------------- multilinear / multivariate

fn run_mle(op: &Op) -> Vec<u8> {
    let mut rng = Rng::new(op.seed);
    let nv = op.a.min(13) as usize;
    let x = DenseMultilinearExtension::<Fr>::from_evaluations_vec(nv, fvec(&mut rng, 1 << nv));
    let y = DenseMultilinearExtension::<Fr>::from_evaluations_vec(nv, fvec(&mut rng, 1 << nv));
    let k = f::<Fr>(&mut rng);
    match op.c % 8 {
        0 => ser(&(&x + &y).evaluations),
        1 => ser(&(&x - &y).evaluations),
        2 => ser(&(-x).evaluations),
        3 => ser(&(x * k).evaluations),
        4 => {
            let mut z = x.clone();
            z += (k, &y);
            ser(&z.evaluations)
        },
        5 => {
            if nv < 2 {
                return vec![];
            }
            let kk = rng.range(1, nv / 2);
            let a = rng.below(nv - 2 * kk + 1);
            let b = a + kk + rng.below(nv - a - 2 * kk + 1);
            ser(&x.relabel(a, b, kk).evaluations)
        },
        6 => {
            let k = rng.below(nv + 1);
            let pt: Vec<Fr> = fvec(&mut rng, k);
            ser(&x.fix_variables(&pt).evaluations)
        },
        _ => {
            let pt: Vec<Fr> = fvec(&mut rng, nv);
            ser(&x.evaluate(&pt))
        },
    }
}
fn gen_mle(rng: &mut Rng) -> (u64, u64, u64) {
    (*rng.pick(&[0u64, 1, 2, 4, 6, 8, 10, 11, 12]), 0, rng.below(8) as u64)
}

fn run_sparse_mle(op: &Op) -> Vec<u8> {
    let mut rng = Rng::new(op.seed);
    let nv = op.a.clamp(1, 12) as usize;
    let nnz = (op.b as usize).min(1 << nv);
    let mk = |rng: &mut Rng| {
        let ev: Vec<(usize, Fr)> = (0..nnz).map(|_| (rng.below(1 << nv), f::<Fr>(rng))).collect();
        SparseMultilinearExtension::<Fr>::from_evaluations(nv, &ev)
    };
    let x = mk(&mut rng);
    let y = mk(&mut rng);
    let k = f::<Fr>(&mut rng);
    match op.c % 6 {
        0 => ser(&(&x + &y).to_dense_multilinear_extension().evaluations),
        1 => ser(&(&x - &y).to_dense_multilinear_extension().evaluations),
        2 => ser(&(-x).to_dense_multilinear_extension().evaluations),
        3 => {
            let mut z = x.clone();
            z += (k, &y);
            ser(&z.to_dense_multilinear_extension().evaluations)
        },
        4 => {
            let k = rng.below(nv + 1);
            let pt: Vec<Fr> = fvec(&mut rng, k);
            ser(&x.fix_variables(&pt).to_dense_multilinear_extension().evaluations)
        },
        _ => {
            let pt: Vec<Fr> = fvec(&mut rng, nv);
            ser(&x.evaluate(&pt))
        },
    }
}
fn gen_sparse_mle(rng: &mut Rng) -> (u64, u64, u64) {
    (*rng.pick(&[1u64, 2, 5, 8, 10, 12]), *rng.pick(&[0u64, 1, 5, 50, 300, 2000]), rng.below(6) as u64)
}

fn run_mv_sparse(op: &Op) -> Vec<u8> {
    let mut rng = Rng::new(op.seed);
    let nv = op.b.clamp(1, 8) as usize;
    let terms: Vec<(Fr, SparseTerm)> = (0..op.a as usize)
        .map(|_| {
            let k = rng.below(nv + 1);
            let t: Vec<(usize, usize)> = (0..k).map(|_| (rng.below(nv), rng.range(1, 4))).collect();
            (f::<Fr>(&mut rng), SparseTerm::new(t))
        })
        .collect();
    let p = MvSparse::<Fr, SparseTerm>::from_coefficients_vec(nv, terms);
    let pt: Vec<Fr> = fvec(&mut rng, nv);
    let q = MvSparse::<Fr, SparseTerm>::from_coefficients_vec(nv, vec![(nz::<Fr>(&mut rng), SparseTerm::new(vec![(0, 1)]))]);
    let mut o = ser(&p.evaluate(&pt));
    o.extend(ser(&(&p + &q).evaluate(&pt)));
    o.extend(ser(&(-p).evaluate(&pt)));
    o
}
fn gen_mv_sparse(rng: &mut Rng) -> (u64, u64, u64) {
    (*rng.pick(&[0u64, 1, 3, 10, 50, 300, 1000]), rng.range(1, 8) as u64, 0)
}

pub fn kinds() -> Vec<KindInfo> {
    let mut v = vec![
        KindInfo { name: "fft", prop: "C14", expect: None, weight: 10, gen: gen_fft, run: run_fft, doc: "a=log2(domain size) b=input length c: bit0 inverse, bit1 coset, bit2 GeneralEvaluationDomain; BLS12-381 Fr" },
        KindInfo { name: "fft_group", prop: "C14", expect: None, weight: 2, gen: gen_fft_group, run: run_fft_group, doc: "FFT with G1Projective coefficients; a=log2(size) b=input length c as fft" },
        KindInfo { name: "fft_mixed", prop: "C14", expect: None, weight: 5, gen: gen_fft_mixed, run: run_fft_mixed, doc: "mixed-radix / general domain over bn384 Fr; a=num_coeffs b=input length c as fft" },
        KindInfo { name: "evals_arith", prop: "C14", expect: None, weight: 4, gen: gen_evals_arith, run: run_evals_arith, doc: "Evaluations mul/add/sub/div/scale/interpolate, mul_polynomials_in_evaluation_domain; a=log2(size)" },
        KindInfo { name: "dense_eval", prop: "C14", expect: None, weight: 8, gen: gen_dense_eval, run: run_dense_eval, doc: "DensePolynomial::evaluate; a=number of coefficients" },
        KindInfo { name: "dense_arith", prop: "C14", expect: None, weight: 5, gen: gen_dense_arith, run: run_dense_arith, doc: "dense/sparse add, sub, mul, scale, neg; a,b=lengths c=operation" },
        KindInfo { name: "vanishing", prop: "C14", expect: None, weight: 4, gen: gen_vanishing, run: run_vanishing, doc: "mul_by_vanishing_poly / divide_by_vanishing_poly; a=poly length b=log2(domain)" },
        KindInfo { name: "eval_over_domain", prop: "C14", expect: None, weight: 6, gen: gen_eval_over_domain, run: run_eval_over_domain, doc: "evaluate_over_domain(_by_ref) of dense and sparse polynomials, also longer than the domain; a=length b=log2(domain) c: variant, bit3 coset" },
        KindInfo { name: "lagrange", prop: "C14", expect: None, weight: 4, gen: gen_lagrange, run: run_lagrange, doc: "evaluate_all_lagrange_coefficients; a=log2(size) c: tau in domain / zero / random, bit2 coset" },
        KindInfo { name: "batch_inv", prop: "C14", expect: None, weight: 8, gen: gen_batch_inv, run: run_batch_inv, doc: "batch_inversion(_and_mul); a=length b=percentage of zeros" },
        KindInfo { name: "msm", prop: "C14", expect: None, weight: 8, gen: gen_msm, run: run_msm, doc: "msm / msm_unchecked / msm_bigint / msm_chunks on G1, G2, Jubjub; a=#bases b=#scalars (MAX = same)" },
        KindInfo { name: "batch_mul", prop: "C14", expect: None, weight: 3, gen: gen_batch_mul, run: run_batch_mul, doc: "ScalarMul::batch_mul and BatchMulPreprocessing; a=#scalars b=table size hint" },
        KindInfo { name: "normalize", prop: "C14", expect: None, weight: 5, gen: gen_normalize, run: run_normalize, doc: "normalize_batch on SW (G1, G2) and TE; a=length" },
        KindInfo { name: "pairing", prop: "C14", expect: None, weight: 6, gen: gen_pairing, run: run_pairing, doc: "multi_miller_loop / multi_pairing; a=#pairs b=identity mask c: bit0 full pairing, bits1+ curve (BLS12-381, BN254, BLS12-377, BW6-761, MNT4-298, MNT6-298)" },
        KindInfo { name: "hash_to_curve", prop: "C14", expect: None, weight: 2, gen: gen_h2c, run: run_h2c, doc: "RFC 9380 hash to BLS12-381 G1/G2 (batched inversion inside the isogeny map with pools larger than its input); a=message length" },
        KindInfo { name: "batch_check", prop: "C14", expect: None, weight: 8, gen: gen_batch_check, run: run_batch_check, doc: "Vec/array/tuple of points deserialized with Validate::Yes; a=length b=position of an out-of-subgroup point (MAX = none)" },
        KindInfo { name: "mle", prop: "C14", expect: None, weight: 4, gen: gen_mle, run: run_mle, doc: "DenseMultilinearExtension add/sub/neg/scale/relabel/fix_variables/evaluate; a=num_vars" },
        KindInfo { name: "sparse_mle", prop: "C14", expect: None, weight: 3, gen: gen_sparse_mle, run: run_sparse_mle, doc: "SparseMultilinearExtension arithmetic/fix_variables/evaluate; a=num_vars b=non-zero entries" },
        KindInfo { name: "mv_sparse", prop: "C14", expect: None, weight: 2, gen: gen_mv_sparse, run: run_mv_sparse, doc: "multivariate SparsePolynomial evaluate/add/neg; a=#terms b=#vars" },
    ];
    v.extend(crate::hist::kinds());
    v
}

#[allow(dead_code)]
fn _unused() {
    let _ = G2A::identity();
    let _ = <Fr as PrimeField>::MODULUS.num_bits();
    let _ = Fr::one();
}
