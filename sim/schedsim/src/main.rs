//! Engine B (`schedsim`): the rayon scheduler behind a seam.
//!
//! Built twice from this source: with feature `par` (all ark crates with their
//! `parallel` feature, real `rayon` on top of `rayon-core-sim`) it is the
//! engine; without it (package `schedsim-oracle`) it is the serial oracle that
//! answers "operation descriptor -> result bytes" over a pipe.
mod hist;
mod ops;

use ops::{kinds, KindInfo, Op};
use serde_json::{json, Value};
use simkit::driver::{loc_class, msg_class, take_panic};
use simkit::Digest;
use std::io::{BufRead, Write};
use std::panic::{catch_unwind, AssertUnwindSafe};

fn find_kind<'a>(ks: &'a [KindInfo], name: &str) -> Option<&'a KindInfo> {
    ks.iter().find(|k| k.name == name)
}

fn hash_bytes(b: &[u8]) -> String {
    let mut d = Digest::default();
    d.add_bytes(b);
    let h1 = d.finish();
    let mut d2 = Digest(0x9E37_79B9_7F4A_7C15);
    d2.add_bytes(b);
    format!("{:016x}{:016x}", h1, d2.finish())
}

/// Run one operation, catching panics: (class, bytes)
fn run_op(ks: &[KindInfo], op: &Op) -> (String, Vec<u8>) {
    let Some(k) = find_kind(ks, &op.kind) else { return ("unknown-kind".into(), vec![]) };
    match catch_unwind(AssertUnwindSafe(|| (k.run)(op))) {
        Ok(b) => ("ok".into(), b),
        Err(_) => {
            let (loc, msg) = take_panic();
            (format!("panic:{} {}", loc_class(&loc), msg_class(&msg)), vec![])
        },
    }
}

fn hexs(b: &[u8]) -> String {
    let mut s = String::with_capacity(b.len() * 2);
    for x in b {
        s.push_str(&format!("{:02x}", x));
    }
    s
}
#[allow(dead_code)]
fn unhex(s: &str) -> Vec<u8> {
    (0..s.len() / 2).map(|i| u8::from_str_radix(&s[2 * i..2 * i + 2], 16).unwrap_or(0)).collect()
}

/// Oracle side of the pipe protocol.
fn serve() -> i32 {
    simkit::driver::install_panic_capture();
    let ks = kinds();
    let stdin = std::io::stdin();
    let stdout = std::io::stdout();
    let mut out = stdout.lock();
    for line in stdin.lock().lines() {
        let Ok(line) = line else { break };
        let Ok(v) = serde_json::from_str::<Value>(&line) else { continue };
        let op = Op::from_json(&v["op"]);
        let (class, bytes) = run_op(&ks, &op);
        let mut r = json!({"class": class, "hash": hash_bytes(&bytes), "len": bytes.len()});
        if v["full"].as_bool().unwrap_or(false) {
            r["bytes"] = json!(hexs(&bytes));
        }
        if writeln!(out, "{}", r).is_err() || out.flush().is_err() {
            break;
        }
    }
    0
}

#[cfg(not(feature = "par"))]
fn main() {
    let args: Vec<String> = std::env::args().skip(1).collect();
    match args.first().map(|s| s.as_str()) {
        Some("serve") => std::process::exit(serve()),
        Some("features") => println!("parallel=false"),
        _ => {
            println!("schedsim-oracle: serial build; usage: serve");
            std::process::exit(2)
        },
    }
}

#[cfg(feature = "par")]
mod engine {
    use super::*;
    use rayon_core::sim::{self, Source};
    use serde_json::Map;
    use simkit::driver::{Engine, EvidenceParts, RunOut, Stats, Violation};
    use simkit::{mix, Rng};
    use std::io::BufReader;
    use std::process::{Child, ChildStdin, ChildStdout, Command, Stdio};

    #[derive(Clone, Debug)]
    pub struct Cfg {
        pub n: usize,
        pub global: bool,
        pub steal_ppm: u32,
        pub bfirst_ppm: u32,
        pub sched_seed: u64,
        /// explicit decisions (replay); None = draw from the PRNG parameters above
        pub decisions: Option<Vec<u8>>,
    }

    impl Cfg {
        fn to_json(&self, trace: &[u8]) -> Value {
            json!({"pool_size": self.n, "entry": if self.global { "global" } else { "install" },
                   "decisions": hexs(trace),
                   "drawn_with": {"steal_ppm": self.steal_ppm, "bfirst_ppm": self.bfirst_ppm, "sched_seed": self.sched_seed.to_string()}})
        }
        fn from_json(v: &Value) -> Cfg {
            Cfg {
                n: v["pool_size"].as_u64().unwrap_or(1) as usize,
                global: v["entry"].as_str() == Some("global"),
                steal_ppm: 0,
                bfirst_ppm: 0,
                sched_seed: 0,
                decisions: Some(unhex(v["decisions"].as_str().unwrap_or(""))),
            }
        }
    }

    struct Oracle {
        child: Child,
        stdin: ChildStdin,
        stdout: BufReader<ChildStdout>,
    }

    pub struct Sched {
        ks: Vec<KindInfo>,
        oracle: Option<Oracle>,
    }

    pub struct ParOut {
        pub class: String,
        pub bytes: Vec<u8>,
        pub trace: Vec<u8>,
        pub counters: sim::Counters,
    }

    impl Sched {
        pub fn new() -> Self {
            Sched { ks: kinds(), oracle: None }
        }
        fn oracle(&mut self) -> &mut Oracle {
            if self.oracle.is_none() {
                let exe = std::env::current_exe().unwrap();
                let path = exe.parent().unwrap().join("schedsim-oracle");
                let mut child = Command::new(&path)
                    .arg("serve")
                    .stdin(Stdio::piped())
                    .stdout(Stdio::piped())
                    .stderr(Stdio::null())
                    .spawn()
                    .unwrap_or_else(|e| panic!("cannot start serial oracle {}: {}", path.display(), e));
                let stdin = child.stdin.take().unwrap();
                let stdout = BufReader::new(child.stdout.take().unwrap());
                self.oracle = Some(Oracle { child, stdin, stdout });
            }
            self.oracle.as_mut().unwrap()
        }
        fn ask(&mut self, op: &Op, full: bool) -> Result<(String, String, Option<Vec<u8>>), String> {
            let o = self.oracle();
            writeln!(o.stdin, "{}", json!({"op": op.to_json(), "full": full})).map_err(|e| e.to_string())?;
            o.stdin.flush().map_err(|e| e.to_string())?;
            let mut line = String::new();
            o.stdout.read_line(&mut line).map_err(|e| e.to_string())?;
            if line.is_empty() {
                // the serial build died (abort / stack overflow): restart it for the next op
                if let Some(mut o) = self.oracle.take() {
                    let _ = o.child.kill();
                    let _ = o.child.wait();
                }
                return Ok(("died".into(), String::new(), None));
            }
            let v: Value = serde_json::from_str(&line).map_err(|e| e.to_string())?;
            Ok((
                v["class"].as_str().unwrap_or("").to_string(),
                v["hash"].as_str().unwrap_or("").to_string(),
                v["bytes"].as_str().map(unhex),
            ))
        }

        pub fn run_par(&self, op: &Op, cfg: &Cfg) -> ParOut {
            let source = match &cfg.decisions {
                Some(b) => Source::List { bytes: b.clone(), pos: 0 },
                None => Source::Random { state: cfg.sched_seed | 1, steal_ppm: cfg.steal_ppm, bfirst_ppm: cfg.bfirst_ppm },
            };
            if cfg.global {
                sim::begin(cfg.n, source);
                let (class, bytes) = run_op(&self.ks, op);
                let (trace, counters) = sim::end();
                ParOut { class, bytes, trace, counters }
            } else {
                // the global pool gets a different size on purpose: code that reads the
                // pool size must read the size of the pool it runs in
                sim::begin(if cfg.n == 3 { 5 } else { 3 }, source);
                let pool = rayon::ThreadPoolBuilder::new().num_threads(cfg.n).build().unwrap();
                let (class, bytes) = pool.install(|| run_op(&self.ks, op));
                let (trace, counters) = sim::end();
                ParOut { class, bytes, trace, counters }
            }
        }

        fn gen_op(&self, prop: &str, rng: &mut Rng) -> Op {
            let ks: Vec<&KindInfo> = self.ks.iter().filter(|k| k.prop == prop).collect();
            let total: u32 = ks.iter().map(|k| k.weight).sum();
            let mut r = rng.below(total as usize) as u32;
            let mut kind = ks[0];
            for k in ks.iter().copied() {
                if r < k.weight {
                    kind = k;
                    break;
                }
                r -= k.weight;
            }
            let (a, b, c) = (kind.gen)(rng);
            Op { kind: kind.name.to_string(), a, b, c, seed: rng.fork() }
        }

        fn gen_cfg(&self, rng: &mut Rng, op: &Op) -> Cfg {
            let len = (op.a as usize).max(1);
            let n = match rng.below(10) {
                0 => 1,
                1..=5 => rng.range(2, 16),
                6 => *rng.pick(&[17usize, 24, 31, 32, 33, 64]),
                7 => (len + 1).min(256),
                8 => (2 * len).min(256),
                _ => *rng.pick(&[2usize, 3, 5, 7, 8, 12, 16]),
            };
            Cfg {
                n,
                global: rng.chance(1, 4),
                steal_ppm: *rng.pick(&[0u32, 50_000, 300_000, 700_000, 1_000_000]),
                bfirst_ppm: *rng.pick(&[0u32, 500_000]),
                sched_seed: rng.fork(),
                decisions: None,
            }
        }

        /// Reference-model answer for kinds that have one, and the serial build judged against it.
        fn model_and_serial(&mut self, prop: &str, op: &Op) -> (Option<Vec<u8>>, Option<Violation>) {
            let Some(k) = find_kind(&self.ks, &op.kind) else { return (None, None) };
            let Some(ef) = k.expect else { return (None, None) };
            let e = match catch_unwind(AssertUnwindSafe(|| ef(op))) {
                Ok(Some(e)) => e,
                Ok(None) => return (None, None),
                Err(_) => {
                    let (loc, msg) = take_panic();
                    return (
                        None,
                        Some(Violation {
                            prop: prop.into(),
                            invariant: "H.model_panic".into(),
                            sig: "H".into(),
                            detail: format!("reference model panicked at {}: {}", loc, msg),
                        }),
                    );
                },
            };
            let v = match self.ask(op, true) {
                Ok((class, _, Some(bytes))) => {
                    if class == "ok" && bytes == e {
                        None
                    } else {
                        let first = e.iter().zip(bytes.iter()).position(|(x, y)| x != y);
                        Some(Violation {
                            prop: prop.into(),
                            invariant: "M1.serial_differs_from_model".into(),
                            sig: format!("sched|{}|M1.serial_differs_from_model", op.kind),
                            detail: format!(
                                "op {} a={} b={} c={:#x}: serial build class '{}', {} result bytes vs {} from the reference model, first difference at byte {:?}",
                                op.kind, op.a, op.b, op.c, class, bytes.len(), e.len(), first
                            ),
                        })
                    }
                },
                Ok((class, _, None)) => Some(Violation {
                    prop: prop.into(),
                    invariant: "M1.serial_differs_from_model".into(),
                    sig: format!("sched|{}|M1.serial_differs_from_model", op.kind),
                    detail: format!("op {} a={} b={} c={:#x}: serial build process ended with class '{}'", op.kind, op.a, op.b, op.c, class),
                }),
                Err(e) => Some(Violation { prop: prop.into(), invariant: "H.oracle_io".into(), sig: "H".into(), detail: e }),
            };
            (Some(e), v)
        }

        /// Compare one parallel execution with the oracle answer.
        #[allow(clippy::too_many_arguments)]
        fn judge(
            &mut self,
            prop: &str,
            op: &Op,
            cfg: &Cfg,
            po: &ParOut,
            oclass: &str,
            ohash: &str,
            expected: Option<&Vec<u8>>,
        ) -> Option<Violation> {
            if let Some(e) = expected {
                // reference-model oracle (C05): the parallel build must give exactly the model's answer
                if po.class == "ok" && &po.bytes == e {
                    return None;
                }
                let first = e.iter().zip(po.bytes.iter()).position(|(x, y)| x != y);
                return Some(Violation {
                    prop: prop.to_string(),
                    invariant: "M1.parallel_differs_from_model".into(),
                    sig: format!("sched|{}|M1.parallel_differs_from_model", op.kind),
                    detail: format!(
                        "op {} a={} b={} c={:#x} on a pool of {} ({}): parallel build class '{}', {} result bytes vs {} from the reference model, first difference at byte {:?}",
                        op.kind, op.a, op.b, op.c, cfg.n, if cfg.global { "global entry" } else { "install entry" },
                        po.class, po.bytes.len(), e.len(), first
                    ),
                });
            }
            if oclass == "died" {
                return None; // the serial build itself aborts on this input: nothing to compare
            }
            let same_class = po.class == oclass;
            let same = same_class && hash_bytes(&po.bytes) == ohash;
            if same {
                return None;
            }
            let inv = if !same_class { "S1.outcome_class_differs" } else { "S1.result_differs" };
            let mut detail = format!(
                "op {} a={} b={} c={} on a pool of {} ({}): serial build gives class '{}', parallel build gives '{}'",
                op.kind,
                op.a,
                op.b,
                op.c,
                cfg.n,
                if cfg.global { "global entry" } else { "install entry" },
                oclass,
                po.class
            );
            if same_class {
                if let Ok((_, _, Some(ob))) = self.ask(op, true) {
                    let first = ob.iter().zip(po.bytes.iter()).position(|(x, y)| x != y);
                    detail.push_str(&format!(
                        "; result bytes differ: serial {} bytes, parallel {} bytes, first difference at byte {:?}",
                        ob.len(),
                        po.bytes.len(),
                        first
                    ));
                }
            }
            Some(Violation {
                prop: prop.to_string(),
                invariant: inv.to_string(),
                sig: format!("sched|{}|{}", op.kind, inv),
                detail,
            })
        }
    }

    impl Engine for Sched {
        fn name(&self) -> &'static str {
            "schedsim"
        }
        fn props(&self) -> Vec<&'static str> {
            vec!["C14", "C05"]
        }
        fn total_runs(&self, prop: &str, tier: &str) -> u64 {
            match (prop, tier) {
                ("C05", "thorough") => 100_000,
                ("C05", _) => 6_000,
                (_, "thorough") => 30_000,
                _ => 3_000,
            }
        }
        fn run_seeded(&mut self, prop: &str, seed: u64, idx: u64, tier: &str, stats: &mut Stats, want_desc: bool) -> RunOut {
            let mut rng = Rng::new(mix(seed, 0xB, idx));
            let op = self.gen_op(prop, &mut rng);
            let k = if tier == "thorough" { 8 } else { 4 };
            let mut dg = Digest::default();
            dg.add_str(&op.kind);
            dg.add(op.size_class());
            let (oclass, ohash) = match self.ask(&op, false) {
                Ok((c, h, _)) => (c, h),
                Err(e) => {
                    return RunOut {
                        digest: 0,
                        nontrivial: false,
                        evals: 0,
                        violation: Some(Violation { prop: prop.into(), invariant: "H.oracle_io".into(), sig: "H".into(), detail: e }),
                        desc: None,
                    }
                },
            };
            stats.bump(&format!("kind.{}.ops", op.kind));
            let mut nontrivial = false;
            let mut violation = None;
            let mut desc = None;
            let mut evals = 0;
            let (expected, serial_v) = self.model_and_serial(prop, &op);
            let is_model = expected.is_some();
            if is_model {
                evals += 1;
                stats.bump("model.serial_build_checked");
                // C05: the history is non-trivial when a flush happens before finalize
                // (accumulators), or there is at least one pair (direct entry points)
                let hist = op.kind.starts_with("hist_") || (op.kind == "gt_msm" && (op.c >> 4) & 0xf < 2);
                let nt = if hist { op.b >= 1 && op.a >= op.b } else { op.a >= 1 };
                nontrivial = nt;
                if hist && nt {
                    stats.bump("probe.flush_before_finalize");
                    stats.add("probe.flushes_predicted", op.a / op.b.max(1));
                }
                if op.kind == "msm_direct" && op.b != u64::MAX && op.b != op.a {
                    stats.bump("probe.length_mismatch");
                }
                dg.add(op.c);
                dg.add(if op.b == 0 { 0 } else if op.b < op.a { 1 } else if op.b == op.a { 2 } else { 3 });
                dg.add(op.a / op.b.max(1));
            }
            if let Some(v) = serial_v {
                let cfg = Cfg { n: 1, global: false, steal_ppm: 0, bfirst_ppm: 0, sched_seed: 1, decisions: Some(vec![]) };
                return RunOut {
                    digest: dg.finish(),
                    nontrivial,
                    evals,
                    violation: Some(v),
                    desc: Some(json!({"entry": op.kind, "op": op.to_json(), "decoded": hist::describe(&op), "cfg": cfg.to_json(&[])})),
                };
            }
            for _ in 0..k {
                let cfg = self.gen_cfg(&mut rng, &op);
                let po = self.run_par(&op, &cfg);
                evals += 1;
                stats.bump(&format!("pool.{:03}", cfg.n));
                stats.bump(if cfg.global { "entry.global" } else { "entry.install" });
                stats.add(&format!("kind.{}.joins", op.kind), po.counters.joins);
                stats.add("fault.schedule.steal", po.counters.steals);
                stats.add("fault.schedule.stolen_job_runs_first", po.counters.b_first);
                stats.max(&format!("max.kind.{}.joins", op.kind), po.counters.joins);
                stats.max("max.split_depth", po.counters.max_depth as u64);
                if po.counters.joins > 0 {
                    stats.bump(&format!("kind.{}.forked_runs", op.kind));
                    if !is_model {
                        nontrivial = true;
                    }
                } else {
                    stats.bump(&format!("kind.{}.unforked_runs", op.kind));
                }
                if po.counters.num_threads_reads > 0 {
                    stats.bump("probe.pool_size_read");
                }
                if cfg.n > (op.a as usize).max(1) && po.counters.joins > 0 {
                    stats.bump("probe.pool_larger_than_input_and_forked");
                }
                let mut td = Digest::default();
                td.add_bytes(&po.trace);
                dg.add(cfg.n as u64);
                dg.add(cfg.global as u64);
                dg.add(td.finish());
                if let Some(v) = self.judge(prop, &op, &cfg, &po, &oclass, &ohash, expected.as_ref()) {
                    desc = Some(json!({"entry": op.kind, "op": op.to_json(), "decoded": hist::describe(&op), "cfg": cfg.to_json(&po.trace)}));
                    violation = Some(v);
                    break;
                }
                if want_desc && desc.is_none() && po.counters.joins > 0 {
                    desc = Some(json!({"entry": op.kind, "op": op.to_json(), "decoded": hist::describe(&op), "cfg": cfg.to_json(&po.trace),
                                       "joins": po.counters.joins, "steals": po.counters.steals}));
                }
            }
            RunOut { digest: dg.finish(), nontrivial, evals, violation, desc }
        }
        fn describe(&mut self, prop: &str, seed: u64, idx: u64, _tier: &str) -> Value {
            let mut rng = Rng::new(mix(seed, 0xB, idx));
            let op = self.gen_op(prop, &mut rng);
            let cfg = self.gen_cfg(&mut rng, &op);
            json!({"entry": op.kind, "op": op.to_json(), "cfg": cfg.to_json(&[]), "note": "decisions not recorded (run did not complete); drawn_with gives the PRNG parameters"})
        }
        fn run_desc(&mut self, prop: &str, desc: &Value, _stats: &mut Stats) -> RunOut {
            let op = Op::from_json(&desc["op"]);
            let mut cfg = Cfg::from_json(&desc["cfg"]);
            if desc["cfg"]["decisions"].as_str().map(|s| s.is_empty()).unwrap_or(true) && desc["note"].is_string() {
                // description of an aborted run: re-draw from the recorded PRNG parameters
                let d = &desc["cfg"]["drawn_with"];
                cfg.decisions = None;
                cfg.steal_ppm = d["steal_ppm"].as_u64().unwrap_or(0) as u32;
                cfg.bfirst_ppm = d["bfirst_ppm"].as_u64().unwrap_or(0) as u32;
                cfg.sched_seed = d["sched_seed"].as_str().and_then(|s| s.parse().ok()).unwrap_or(1);
            }
            let (oclass, ohash) = match self.ask(&op, false) {
                Ok((c, h, _)) => (c, h),
                Err(e) => {
                    return RunOut {
                        digest: 0,
                        nontrivial: false,
                        evals: 0,
                        violation: Some(Violation { prop: prop.into(), invariant: "H.oracle_io".into(), sig: "H".into(), detail: e }),
                        desc: None,
                    }
                },
            };
            let (expected, serial_v) = self.model_and_serial(prop, &op);
            if serial_v.is_some() {
                return RunOut { digest: 0, nontrivial: true, evals: 1, violation: serial_v, desc: Some(desc.clone()) };
            }
            let po = self.run_par(&op, &cfg);
            let violation = self.judge(prop, &op, &cfg, &po, &oclass, &ohash, expected.as_ref());
            RunOut { digest: 0, nontrivial: po.counters.joins > 0, evals: 1, violation, desc: Some(desc.clone()) }
        }
        fn shrink_candidates(&self, desc: &Value) -> Vec<Value> {
            let mut out = vec![];
            let op = Op::from_json(&desc["op"]);
            let n = desc["cfg"]["pool_size"].as_u64().unwrap_or(1);
            let dec = unhex(desc["cfg"]["decisions"].as_str().unwrap_or(""));
            let mut push = |op: &Op, n: u64, dec: &[u8], entry: &str| {
                let mut d = desc.clone();
                d["op"] = op.to_json();
                d["cfg"]["pool_size"] = json!(n);
                d["cfg"]["decisions"] = json!(hexs(dec));
                d["cfg"]["entry"] = json!(entry);
                out.push(d);
            };
            let entry = desc["cfg"]["entry"].as_str().unwrap_or("install").to_string();
            // no steals at all, then fewer decisions
            if dec.iter().any(|&b| b != 0) {
                push(&op, n, &[], &entry);
                push(&op, n, &dec[..dec.len() / 2], &entry);
                let cleared: Vec<u8> = dec.iter().map(|b| b & 1).collect();
                if cleared != dec {
                    push(&op, n, &cleared, &entry);
                }
            }
            if entry == "global" {
                push(&op, n, &dec, "install");
            }
            for m in [2u64, n / 2, n.saturating_sub(1)] {
                if m >= 1 && m < n {
                    push(&op, m, &dec, &entry);
                }
            }
            for (da, db) in [(2u64, 1u64), (1, 2)] {
                let mut o = op.clone();
                o.a = op.a / da;
                if op.b != u64::MAX {
                    o.b = op.b / db;
                }
                if o != op {
                    push(&o, n, &dec, &entry);
                }
            }
            if op.a > 0 {
                let mut o = op.clone();
                o.a -= 1;
                push(&o, n, &dec, &entry);
            }
            out
        }
        fn evidence(&self, _prop: &str, _tier: &str, stats: &Stats) -> EvidenceParts {
            let mut extras = Map::new();
            let mut reach = Map::new();
            let mut unreached = vec![];
            for k in &self.ks {
                let g = |s: &str| stats.counters.get(&format!("kind.{}.{}", k.name, s)).copied().unwrap_or(0);
                let forked = g("forked_runs");
                let un = g("unforked_runs");
                reach.insert(
                    k.name.to_string(),
                    json!({"ops": g("ops"), "executions": forked + un, "forked_executions": forked,
                           "fork_fraction": if forked + un > 0 { forked as f64 / (forked + un) as f64 } else { 0.0 },
                           "joins": g("joins"), "max_joins_in_one_execution": stats.counters.get(&format!("max.kind.{}.joins", k.name)).copied().unwrap_or(0),
                           "parameters": k.doc}),
                );
                if forked == 0 {
                    unreached.push(k.name);
                }
            }
            // the soundness assumption of run-to-completion tasks: library tasks share no mutable state
            let audit = std::process::Command::new("grep")
                .args([
                    "-rnE",
                    "Atomic(Bool|Usize|U64|I64|U32|Ptr)|Mutex|RwLock|RefCell|[^a-zA-Z]Cell<|OnceCell|OnceLock|lazy_static|static mut |thread_local!|UnsafeCell",
                    "--include=*.rs",
                    "/repo/ff/src",
                    "/repo/ec/src",
                    "/repo/poly/src",
                    "/repo/serialize/src",
                    "/repo/test-curves/src",
                    "/repo/curves",
                ])
                .output();
            let hits: Vec<String> = match audit {
                Ok(o) => String::from_utf8_lossy(&o.stdout)
                    .lines()
                    .filter(|l| !l.split(':').nth(2).map(|c| c.trim_start().starts_with("//")).unwrap_or(false))
                    .take(20)
                    .map(|l| l.to_string())
                    .collect(),
                Err(_) => vec!["(grep unavailable)".into()],
            };
            if !hits.is_empty() {
                println!("WARNING shared-mutable-state audit: {} hit(s) in library sources; the run-to-completion equivalence argument must be re-examined: {:?}", hits.len(), &hits[..hits.len().min(3)]);
            }
            extras.insert("shared_mutable_state_audit".into(), json!({"pattern": "Atomic*|Mutex|RwLock|RefCell|Cell<|OnceCell|OnceLock|lazy_static|static mut|thread_local!|UnsafeCell", "hits_in_library_sources": hits}));
            extras.insert("operation_kinds".into(), Value::Object(reach));
            extras.insert("kinds_whose_parallel_branch_never_forked".into(), json!(unreached));
            extras.insert(
                "components".into(),
                json!({
                    "real": ["ark-ff, ark-ec, ark-poly, ark-serialize, ark-test-curves built with `parallel`", "rayon 1.12.0 (iterator adaptors, producers/consumers, adaptive splitter, par_bridge, collect)", "the same crates built without `parallel` (serial oracle process)"],
                    "simulated": ["rayon-core (join/join_context, FnContext::migrated, current_num_threads, current_thread_index, scope, ThreadPool::install): rayon-core-sim, single-threaded, every steal decision drawn from the seeded decision stream and recorded"],
                    "not_explored": ["preemption inside a task (tasks run to completion; sound because library tasks share no mutable state)", "which worker consumes which item of a par_bridge iterator"]
                }),
            );
            EvidenceParts {
                level: "exploration",
                rule: "Each evaluation executes one generated operation of the parallel build under one (pool size, entry mode, steal-decision list) and compares the canonical result bytes with the serial build's answer for the same descriptor. Non-trivial = the execution performed at least one join (the parallel branch actually forked); distinct = distinct digests over (operation kind, size class, per-configuration pool size, entry mode, decision-list hash).".into(),
                assumptions: vec![
                    "library tasks handed to rayon share no mutable state (seam audit in DESIGN.md §1), so running tasks to completion in a decided order is equivalent to any real interleaving".into(),
                    "rayon-core-sim reproduces the two inputs rayon's splitter reads (current_num_threads, FnContext::migrated) with the semantics read off rayon-core 1.13.0".into(),
                    "the serial build is the oracle, as the property states; inputs are derived from the descriptor by serial code only".into(),
                ],
                extras,
            }
        }
        fn prepare(&mut self, _role: &str) {}
    }

    impl Drop for Sched {
        fn drop(&mut self) {
            if let Some(mut o) = self.oracle.take() {
                let _ = o.child.kill();
                let _ = o.child.wait();
            }
        }
    }
}

#[cfg(feature = "par")]
fn main() {
    let args: Vec<String> = std::env::args().skip(1).collect();
    if args.first().map(|s| s.as_str()) == Some("serve") {
        // (the parallel build can also serve; used by the self-test only)
        std::process::exit(serve());
    }
    if args.first().map(|s| s.as_str()) == Some("features") {
        println!("parallel=true");
        return;
    }
    let mut eng = engine::Sched::new();
    simkit::driver::main_with(&mut eng)
}
