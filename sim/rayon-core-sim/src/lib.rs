//! `rayon-core-sim`: a deterministic, single-threaded simulation of rayon-core.
//!
//! Every scheduling decision real work stealing could take at a `join` —
//! whether job `b` is stolen, by which worker, and whether the thief runs it
//! before or after `a` finishes — is drawn from a decision source the harness
//! installs (`sim` module) and is recorded, so one decision list is one exactly
//! repeatable execution.  The real `rayon` crate (iterator adaptors, adaptive
//! splitter, par_bridge, collect) compiles against this crate unchanged.
//!
//! Faithfulness: rayon's splitter decides from `current_num_threads()` and
//! `FnContext::migrated()` only; both are provided with the semantics of the
//! real crate (see `join_context`).  Tasks run to completion without
//! preemption, which is equivalent to any real interleaving as long as tasks
//! share no mutable state.

use std::any::Any;
use std::cell::RefCell;
use std::collections::VecDeque;
use std::fmt;
use std::marker::PhantomData;
use std::panic::{catch_unwind, resume_unwind, AssertUnwindSafe};
use std::sync::Mutex;

pub mod sim {
    //! Control surface for the harness (not part of rayon-core's API).
    use super::*;

    /// Where scheduling decisions come from.
    pub enum Source {
        /// xorshift PRNG: steal with probability `steal_ppm`/1e6, and if stolen run
        /// `b` first with probability `bfirst_ppm`/1e6
        Random { state: u64, steal_ppm: u32, bfirst_ppm: u32 },
        /// explicit decision bytes (replay); exhausted => never stolen
        List { bytes: Vec<u8>, pos: usize },
    }

    #[derive(Default, Clone, Debug)]
    pub struct Counters {
        pub joins: u64,
        pub steals: u64,
        pub b_first: u64,
        pub max_depth: u32,
        pub scopes: u64,
        pub spawns: u64,
        pub installs: u64,
        pub num_threads_reads: u64,
    }

    pub(crate) struct State {
        pub global_threads: usize,
        /// (pool size, worker index) when executing inside a pool
        pub ctx: Option<(usize, usize)>,
        pub source: Source,
        /// one byte per join decision: bit0 = stolen, bit1 = b first, bits 2.. = thief offset
        pub trace: Vec<u8>,
        pub depth: u32,
        pub counters: Counters,
    }

    thread_local! {
        pub(crate) static ST: RefCell<State> = RefCell::new(State {
            global_threads: 1,
            ctx: None,
            source: Source::List { bytes: vec![], pos: 0 },
            trace: vec![],
            depth: 0,
            counters: Counters::default(),
        });
    }

    /// Start a simulated execution: size of the implicit global pool and the decision source.
    pub fn begin(global_threads: usize, source: Source) {
        ST.with(|s| {
            let mut s = s.borrow_mut();
            s.global_threads = global_threads.max(1);
            s.ctx = None;
            s.source = source;
            s.trace.clear();
            s.depth = 0;
            s.counters = Counters::default();
        })
    }

    /// Finish: returns the recorded decision list and the counters.
    pub fn end() -> (Vec<u8>, Counters) {
        ST.with(|s| {
            let mut s = s.borrow_mut();
            s.ctx = None;
            s.depth = 0;
            (std::mem::take(&mut s.trace), s.counters.clone())
        })
    }

    /// (stolen, b_first, thief_offset) for the next join on a pool of `n` threads.
    pub(crate) fn decide(n: usize) -> (bool, bool, usize) {
        ST.with(|s| {
            let mut s = s.borrow_mut();
            if n <= 1 {
                s.trace.push(0);
                return (false, false, 0);
            }
            let byte = match &mut s.source {
                Source::Random { state, steal_ppm, bfirst_ppm } => {
                    let mut next = || {
                        let mut x = *state;
                        x ^= x << 13;
                        x ^= x >> 7;
                        x ^= x << 17;
                        *state = x;
                        x
                    };
                    let stolen = (next() % 1_000_000) < *steal_ppm as u64;
                    if stolen {
                        let bf = (next() % 1_000_000) < *bfirst_ppm as u64;
                        let off = (next() % 61) as u8;
                        1 | ((bf as u8) << 1) | (off << 2)
                    } else {
                        0
                    }
                },
                Source::List { bytes, pos } => {
                    let b = bytes.get(*pos).copied().unwrap_or(0);
                    *pos += 1;
                    b
                },
            };
            s.trace.push(byte);
            let stolen = byte & 1 == 1;
            let bf = stolen && byte & 2 == 2;
            let off = (byte >> 2) as usize;
            (stolen, bf, off)
        })
    }
}

use sim::ST;

fn ctx() -> Option<(usize, usize)> {
    ST.with(|s| s.borrow().ctx)
}
fn set_ctx(c: Option<(usize, usize)>) {
    ST.with(|s| s.borrow_mut().ctx = c)
}

/// Provides context to a closure called by `join_context`.
pub struct FnContext {
    migrated: bool,
    _marker: PhantomData<*mut ()>,
}

impl FnContext {
    fn new(migrated: bool) -> Self {
        FnContext { migrated, _marker: PhantomData }
    }
    /// Returns `true` if the closure was called from a different thread than it was provided from.
    #[inline]
    pub fn migrated(&self) -> bool {
        self.migrated
    }
}

impl fmt::Debug for FnContext {
    fn fmt(&self, f: &mut fmt::Formatter<'_>) -> fmt::Result {
        f.debug_struct("FnContext").field("migrated", &self.migrated).finish()
    }
}

pub fn join<A, B, RA, RB>(oper_a: A, oper_b: B) -> (RA, RB)
where
    A: FnOnce() -> RA + Send,
    B: FnOnce() -> RB + Send,
    RA: Send,
    RB: Send,
{
    join_context(move |_| oper_a(), move |_| oper_b())
}

/// As in rayon-core: when called from outside the pool the whole join is
/// injected into it (`a` then observes migrated() == true); `b` observes
/// migrated() == true iff it was stolen (or the join was injected).  A stolen
/// `b` runs under another worker index, before or after `a`.
pub fn join_context<A, B, RA, RB>(oper_a: A, oper_b: B) -> (RA, RB)
where
    A: FnOnce(FnContext) -> RA + Send,
    B: FnOnce(FnContext) -> RB + Send,
    RA: Send,
    RB: Send,
{
    let outer = ctx();
    let (n, me, injected) = match outer {
        Some((n, w)) => (n, w, false),
        None => {
            let n = ST.with(|s| s.borrow().global_threads);
            (n, 0, true)
        },
    };
    if injected {
        set_ctx(Some((n, me)));
    }
    let (stolen, b_first, off) = sim::decide(n);
    ST.with(|s| {
        let mut s = s.borrow_mut();
        s.counters.joins += 1;
        if stolen {
            s.counters.steals += 1;
        }
        if b_first {
            s.counters.b_first += 1;
        }
        s.depth += 1;
        if s.depth > s.counters.max_depth {
            s.counters.max_depth = s.depth;
        }
    });
    let thief = if stolen { (me + 1 + off % (n - 1)) % n } else { me };
    let run_a = move || catch_unwind(AssertUnwindSafe(move || oper_a(FnContext::new(injected))));
    let run_b = move || {
        set_ctx(Some((n, thief)));
        let r = catch_unwind(AssertUnwindSafe(move || oper_b(FnContext::new(stolen || injected))));
        set_ctx(Some((n, me)));
        r
    };
    let (ra, rb) = if b_first {
        let rb = run_b();
        let ra = run_a();
        (ra, rb)
    } else {
        let ra = run_a();
        let rb = run_b();
        (ra, rb)
    };
    ST.with(|s| s.borrow_mut().depth -= 1);
    set_ctx(outer);
    match (ra, rb) {
        (Ok(a), Ok(b)) => (a, b),
        (Err(e), _) => resume_unwind(e),
        (_, Err(e)) => resume_unwind(e),
    }
}

pub fn current_num_threads() -> usize {
    ST.with(|s| {
        let mut s = s.borrow_mut();
        s.counters.num_threads_reads += 1;
        match s.ctx {
            Some((n, _)) => n,
            None => s.global_threads,
        }
    })
}

pub fn current_thread_index() -> Option<usize> {
    ctx().map(|c| c.1)
}

pub fn max_num_threads() -> usize {
    1 << 16
}

// ------------------------------------------------------------------ scopes

type Job<'scope, S> = Box<dyn FnOnce(&S) + Send + 'scope>;

pub struct Scope<'scope> {
    jobs: Mutex<VecDeque<Job<'scope, Scope<'scope>>>>,
    panic: Mutex<Option<Box<dyn Any + Send + 'static>>>,
    _marker: PhantomData<Box<dyn FnOnce(&Scope<'scope>) + Send + Sync + 'scope>>,
}

pub struct ScopeFifo<'scope> {
    jobs: Mutex<VecDeque<Job<'scope, ScopeFifo<'scope>>>>,
    panic: Mutex<Option<Box<dyn Any + Send + 'static>>>,
    _marker: PhantomData<Box<dyn FnOnce(&ScopeFifo<'scope>) + Send + Sync + 'scope>>,
}

macro_rules! scope_impl {
    ($ty:ident, $lifo:expr) => {
        impl<'scope> $ty<'scope> {
            fn new() -> Self {
                $ty { jobs: Mutex::new(VecDeque::new()), panic: Mutex::new(None), _marker: PhantomData }
            }
            pub fn spawn<BODY>(&self, body: BODY)
            where
                BODY: FnOnce(&$ty<'scope>) + Send + 'scope,
            {
                ST.with(|s| s.borrow_mut().counters.spawns += 1);
                self.jobs.lock().unwrap().push_back(Box::new(body));
            }
            pub fn spawn_broadcast<BODY>(&self, _body: BODY)
            where
                BODY: Fn(&$ty<'scope>, BroadcastContext<'_>) + Send + Sync + 'scope,
            {
                unimplemented!("rayon-core-sim: spawn_broadcast is not simulated")
            }
            fn drain(&self) {
                loop {
                    let job = {
                        let mut q = self.jobs.lock().unwrap();
                        if $lifo {
                            q.pop_back()
                        } else {
                            q.pop_front()
                        }
                    };
                    let Some(job) = job else { break };
                    if let Err(e) = catch_unwind(AssertUnwindSafe(|| job(self))) {
                        let mut p = self.panic.lock().unwrap();
                        if p.is_none() {
                            *p = Some(e);
                        }
                    }
                }
            }
            fn complete<R>(&self, r: std::thread::Result<R>) -> R {
                self.drain();
                let p = self.panic.lock().unwrap().take();
                match (r, p) {
                    (Err(e), _) => resume_unwind(e),
                    (_, Some(e)) => resume_unwind(e),
                    (Ok(r), None) => r,
                }
            }
        }
        impl fmt::Debug for $ty<'_> {
            fn fmt(&self, f: &mut fmt::Formatter<'_>) -> fmt::Result {
                f.debug_struct(stringify!($ty)).finish()
            }
        }
    };
}
scope_impl!(Scope, true);
scope_impl!(ScopeFifo, false);

fn enter_pool<R>(f: impl FnOnce() -> R) -> R {
    let outer = ctx();
    if outer.is_none() {
        let n = ST.with(|s| s.borrow().global_threads);
        set_ctx(Some((n, 0)));
    }
    let r = catch_unwind(AssertUnwindSafe(f));
    set_ctx(outer);
    match r {
        Ok(r) => r,
        Err(e) => resume_unwind(e),
    }
}

pub fn scope<'scope, OP, R>(op: OP) -> R
where
    OP: FnOnce(&Scope<'scope>) -> R + Send,
    R: Send,
{
    ST.with(|s| s.borrow_mut().counters.scopes += 1);
    enter_pool(|| {
        let s = Scope::new();
        let r = catch_unwind(AssertUnwindSafe(|| op(&s)));
        s.complete(r)
    })
}

pub fn scope_fifo<'scope, OP, R>(op: OP) -> R
where
    OP: FnOnce(&ScopeFifo<'scope>) -> R + Send,
    R: Send,
{
    ST.with(|s| s.borrow_mut().counters.scopes += 1);
    enter_pool(|| {
        let s = ScopeFifo::new();
        let r = catch_unwind(AssertUnwindSafe(|| op(&s)));
        s.complete(r)
    })
}

pub fn in_place_scope<'scope, OP, R>(op: OP) -> R
where
    OP: FnOnce(&Scope<'scope>) -> R,
{
    ST.with(|s| s.borrow_mut().counters.scopes += 1);
    let s = Scope::new();
    let r = catch_unwind(AssertUnwindSafe(|| op(&s)));
    enter_pool(|| s.complete(r))
}

pub fn in_place_scope_fifo<'scope, OP, R>(op: OP) -> R
where
    OP: FnOnce(&ScopeFifo<'scope>) -> R,
{
    ST.with(|s| s.borrow_mut().counters.scopes += 1);
    let s = ScopeFifo::new();
    let r = catch_unwind(AssertUnwindSafe(|| op(&s)));
    enter_pool(|| s.complete(r))
}

pub fn spawn<F>(func: F)
where
    F: FnOnce() + Send + 'static,
{
    // fire-and-forget job on the global pool: run it now
    enter_pool(func)
}

pub fn spawn_fifo<F>(func: F)
where
    F: FnOnce() + Send + 'static,
{
    enter_pool(func)
}

// ------------------------------------------------------------------ broadcast (inert)

pub struct BroadcastContext<'a> {
    index: usize,
    num_threads: usize,
    _marker: PhantomData<&'a mut dyn Fn()>,
}

impl BroadcastContext<'_> {
    pub fn index(&self) -> usize {
        self.index
    }
    pub fn num_threads(&self) -> usize {
        self.num_threads
    }
}

impl fmt::Debug for BroadcastContext<'_> {
    fn fmt(&self, f: &mut fmt::Formatter<'_>) -> fmt::Result {
        f.debug_struct("BroadcastContext").field("index", &self.index).finish()
    }
}

pub fn broadcast<OP, R>(op: OP) -> Vec<R>
where
    OP: Fn(BroadcastContext<'_>) -> R + Sync,
    R: Send,
{
    let n = current_num_threads();
    let outer = ctx();
    let r = (0..n)
        .map(|i| {
            set_ctx(Some((n, i)));
            op(BroadcastContext { index: i, num_threads: n, _marker: PhantomData })
        })
        .collect();
    set_ctx(outer);
    r
}

pub fn spawn_broadcast<OP>(op: OP)
where
    OP: Fn(BroadcastContext<'_>) + Send + Sync + 'static,
{
    broadcast(op);
}

// ------------------------------------------------------------------ pools

pub struct ThreadPoolBuildError {
    msg: &'static str,
}

impl fmt::Debug for ThreadPoolBuildError {
    fn fmt(&self, f: &mut fmt::Formatter<'_>) -> fmt::Result {
        f.write_str(self.msg)
    }
}
impl fmt::Display for ThreadPoolBuildError {
    fn fmt(&self, f: &mut fmt::Formatter<'_>) -> fmt::Result {
        f.write_str(self.msg)
    }
}
impl std::error::Error for ThreadPoolBuildError {}

pub struct ThreadBuilder {
    index: usize,
}

impl ThreadBuilder {
    pub fn index(&self) -> usize {
        self.index
    }
    pub fn name(&self) -> Option<&str> {
        None
    }
    pub fn stack_size(&self) -> Option<usize> {
        None
    }
    pub fn run(self) {}
}

impl fmt::Debug for ThreadBuilder {
    fn fmt(&self, f: &mut fmt::Formatter<'_>) -> fmt::Result {
        f.debug_struct("ThreadBuilder").field("index", &self.index).finish()
    }
}

pub struct DefaultSpawn;

pub struct ThreadPoolBuilder<S = DefaultSpawn> {
    num_threads: usize,
    _spawn: S,
}

impl Default for ThreadPoolBuilder {
    fn default() -> Self {
        ThreadPoolBuilder { num_threads: 0, _spawn: DefaultSpawn }
    }
}

impl ThreadPoolBuilder {
    pub fn new() -> Self {
        Self::default()
    }
}

impl<S> ThreadPoolBuilder<S> {
    pub fn num_threads(mut self, n: usize) -> Self {
        self.num_threads = n;
        self
    }
    pub fn thread_name<F>(self, _closure: F) -> Self
    where
        F: FnMut(usize) -> String + 'static,
    {
        self
    }
    pub fn stack_size(self, _stack_size: usize) -> Self {
        self
    }
    pub fn panic_handler<H>(self, _h: H) -> Self
    where
        H: Fn(Box<dyn Any + Send>) + Send + Sync + 'static,
    {
        self
    }
    pub fn start_handler<H>(self, _h: H) -> Self
    where
        H: Fn(usize) + Send + Sync + 'static,
    {
        self
    }
    pub fn exit_handler<H>(self, _h: H) -> Self
    where
        H: Fn(usize) + Send + Sync + 'static,
    {
        self
    }
    #[deprecated(note = "use `scope_fifo` and `spawn_fifo` for similar effect")]
    pub fn breadth_first(self) -> Self {
        self
    }
    pub fn use_current_thread(self) -> Self {
        self
    }
    fn threads(&self) -> usize {
        if self.num_threads == 0 {
            ST.with(|s| s.borrow().global_threads)
        } else {
            self.num_threads
        }
    }
    pub fn build(self) -> Result<ThreadPool, ThreadPoolBuildError> {
        Ok(ThreadPool { n: self.threads() })
    }
    pub fn build_global(self) -> Result<(), ThreadPoolBuildError> {
        let n = self.threads();
        ST.with(|s| s.borrow_mut().global_threads = n);
        Ok(())
    }
    pub fn spawn_handler<F>(self, _spawn: F) -> ThreadPoolBuilder<CustomSpawn<F>>
    where
        F: FnMut(ThreadBuilder) -> std::io::Result<()>,
    {
        ThreadPoolBuilder { num_threads: self.num_threads, _spawn: CustomSpawn(_spawn) }
    }
}

pub struct CustomSpawn<F>(#[allow(dead_code)] F);

impl<S> fmt::Debug for ThreadPoolBuilder<S> {
    fn fmt(&self, f: &mut fmt::Formatter<'_>) -> fmt::Result {
        f.debug_struct("ThreadPoolBuilder").field("num_threads", &self.num_threads).finish()
    }
}

pub struct ThreadPool {
    n: usize,
}

impl ThreadPool {
    #[deprecated(note = "Use `ThreadPoolBuilder::build`")]
    pub fn new(_c: Configuration) -> Result<ThreadPool, Box<dyn std::error::Error>> {
        Ok(ThreadPool { n: 1 })
    }
    /// Executes `op` within the pool: it runs on a pool worker, so joins it
    /// performs are not injected and `current_num_threads()` is this pool's size.
    pub fn install<OP, R>(&self, op: OP) -> R
    where
        OP: FnOnce() -> R + Send,
        R: Send,
    {
        ST.with(|s| s.borrow_mut().counters.installs += 1);
        let outer = ctx();
        set_ctx(Some((self.n, 0)));
        let r = catch_unwind(AssertUnwindSafe(op));
        set_ctx(outer);
        match r {
            Ok(r) => r,
            Err(e) => resume_unwind(e),
        }
    }
    pub fn broadcast<OP, R>(&self, op: OP) -> Vec<R>
    where
        OP: Fn(BroadcastContext<'_>) -> R + Sync,
        R: Send,
    {
        let outer = ctx();
        set_ctx(Some((self.n, 0)));
        let r = broadcast(op);
        set_ctx(outer);
        r
    }
    pub fn current_num_threads(&self) -> usize {
        self.n
    }
    pub fn current_thread_index(&self) -> Option<usize> {
        ctx().map(|c| c.1)
    }
    pub fn current_thread_has_pending_tasks(&self) -> Option<bool> {
        ctx().map(|_| false)
    }
    pub fn join<A, B, RA, RB>(&self, oper_a: A, oper_b: B) -> (RA, RB)
    where
        A: FnOnce() -> RA + Send,
        B: FnOnce() -> RB + Send,
        RA: Send,
        RB: Send,
    {
        self.install(|| join(oper_a, oper_b))
    }
    pub fn scope<'scope, OP, R>(&self, op: OP) -> R
    where
        OP: FnOnce(&Scope<'scope>) -> R + Send,
        R: Send,
    {
        self.install(|| scope(op))
    }
    pub fn scope_fifo<'scope, OP, R>(&self, op: OP) -> R
    where
        OP: FnOnce(&ScopeFifo<'scope>) -> R + Send,
        R: Send,
    {
        self.install(|| scope_fifo(op))
    }
    pub fn in_place_scope<'scope, OP, R>(&self, op: OP) -> R
    where
        OP: FnOnce(&Scope<'scope>) -> R,
    {
        let outer = ctx();
        set_ctx(Some((self.n, 0)));
        let r = catch_unwind(AssertUnwindSafe(|| in_place_scope(op)));
        set_ctx(outer);
        match r {
            Ok(r) => r,
            Err(e) => resume_unwind(e),
        }
    }
    pub fn in_place_scope_fifo<'scope, OP, R>(&self, op: OP) -> R
    where
        OP: FnOnce(&ScopeFifo<'scope>) -> R,
    {
        let outer = ctx();
        set_ctx(Some((self.n, 0)));
        let r = catch_unwind(AssertUnwindSafe(|| in_place_scope_fifo(op)));
        set_ctx(outer);
        match r {
            Ok(r) => r,
            Err(e) => resume_unwind(e),
        }
    }
    pub fn spawn<OP>(&self, op: OP)
    where
        OP: FnOnce() + Send + 'static,
    {
        self.install(op)
    }
    pub fn spawn_fifo<OP>(&self, op: OP)
    where
        OP: FnOnce() + Send + 'static,
    {
        self.install(op)
    }
    pub fn spawn_broadcast<OP>(&self, op: OP)
    where
        OP: Fn(BroadcastContext<'_>) + Send + Sync + 'static,
    {
        self.broadcast(op);
    }
    pub fn yield_now(&self) -> Option<Yield> {
        ctx().map(|_| Yield::Idle)
    }
    pub fn yield_local(&self) -> Option<Yield> {
        ctx().map(|_| Yield::Idle)
    }
}

impl fmt::Debug for ThreadPool {
    fn fmt(&self, f: &mut fmt::Formatter<'_>) -> fmt::Result {
        f.debug_struct("ThreadPool").field("num_threads", &self.n).finish()
    }
}

#[deprecated(note = "Use `ThreadPoolBuilder`")]
#[derive(Default)]
pub struct Configuration;

#[derive(Clone, Copy, Debug, PartialEq, Eq)]
pub enum Yield {
    Executed,
    Idle,
}

pub fn yield_now() -> Option<Yield> {
    ctx().map(|_| Yield::Idle)
}

pub fn yield_local() -> Option<Yield> {
    ctx().map(|_| Yield::Idle)
}
