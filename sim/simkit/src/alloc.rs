//! Allocation monitor: a counting `GlobalAlloc` the worker binaries install.
//! It is the "allocator seam": it measures, per window, the largest single
//! request and the live-bytes high-water mark, and refuses requests above a
//! hard cap (which makes the standard library abort the process; the driver
//! attributes the abort to the in-flight run through the status file).

use std::alloc::{GlobalAlloc, Layout, System};
use std::sync::atomic::{AtomicI32, AtomicUsize, Ordering::Relaxed};

pub struct Tracking;

static LIVE: AtomicUsize = AtomicUsize::new(0);
static PEAK: AtomicUsize = AtomicUsize::new(0);
static MAXREQ: AtomicUsize = AtomicUsize::new(0);
static NALLOC: AtomicUsize = AtomicUsize::new(0);
static STATUS_FD: AtomicI32 = AtomicI32::new(-1);

/// Requests above this are refused (null → `handle_alloc_error` → abort).
pub const HARD_CAP: usize = 1 << 30;

pub fn set_status_fd(fd: i32) {
    STATUS_FD.store(fd, Relaxed);
}

fn note_oversize(size: usize) {
    let fd = STATUS_FD.load(Relaxed);
    if fd < 0 {
        return;
    }
    // format without allocating
    let mut buf = [0u8; 40];
    let pre = b" OVERSIZE ";
    buf[..pre.len()].copy_from_slice(pre);
    let mut digits = [0u8; 20];
    let mut n = size;
    let mut i = 0;
    loop {
        digits[i] = b'0' + (n % 10) as u8;
        n /= 10;
        i += 1;
        if n == 0 {
            break;
        }
    }
    let mut p = pre.len();
    while i > 0 {
        i -= 1;
        buf[p] = digits[i];
        p += 1;
    }
    buf[p] = b'\n';
    p += 1;
    unsafe {
        libc::write(fd, buf.as_ptr() as *const libc::c_void, p);
    }
}

#[inline]
fn on_alloc(size: usize) {
    NALLOC.fetch_add(1, Relaxed);
    let live = LIVE.fetch_add(size, Relaxed) + size;
    if live > PEAK.load(Relaxed) {
        PEAK.store(live, Relaxed);
    }
    if size > MAXREQ.load(Relaxed) {
        MAXREQ.store(size, Relaxed);
    }
}

unsafe impl GlobalAlloc for Tracking {
    unsafe fn alloc(&self, layout: Layout) -> *mut u8 {
        let size = layout.size();
        if size > HARD_CAP {
            if size > MAXREQ.load(Relaxed) {
                MAXREQ.store(size, Relaxed);
            }
            note_oversize(size);
            return std::ptr::null_mut();
        }
        let p = System.alloc(layout);
        if !p.is_null() {
            on_alloc(size);
        }
        p
    }
    unsafe fn alloc_zeroed(&self, layout: Layout) -> *mut u8 {
        let size = layout.size();
        if size > HARD_CAP {
            if size > MAXREQ.load(Relaxed) {
                MAXREQ.store(size, Relaxed);
            }
            note_oversize(size);
            return std::ptr::null_mut();
        }
        let p = System.alloc_zeroed(layout);
        if !p.is_null() {
            on_alloc(size);
        }
        p
    }
    unsafe fn dealloc(&self, ptr: *mut u8, layout: Layout) {
        LIVE.fetch_sub(layout.size(), Relaxed);
        System.dealloc(ptr, layout)
    }
    unsafe fn realloc(&self, ptr: *mut u8, layout: Layout, new_size: usize) -> *mut u8 {
        if new_size > HARD_CAP {
            if new_size > MAXREQ.load(Relaxed) {
                MAXREQ.store(new_size, Relaxed);
            }
            note_oversize(new_size);
            return std::ptr::null_mut();
        }
        let p = System.realloc(ptr, layout, new_size);
        if !p.is_null() {
            LIVE.fetch_sub(layout.size(), Relaxed);
            on_alloc(new_size);
        }
        p
    }
}

/// A measurement window.
pub struct Window {
    base_live: usize,
    base_n: usize,
}

pub fn begin() -> Window {
    let live = LIVE.load(Relaxed);
    PEAK.store(live, Relaxed);
    MAXREQ.store(0, Relaxed);
    Window {
        base_live: live,
        base_n: NALLOC.load(Relaxed),
    }
}

#[derive(Clone, Copy, Debug, Default)]
pub struct Usage {
    /// high-water mark of live bytes above the level at window start
    pub peak_delta: usize,
    /// largest single request inside the window
    pub max_request: usize,
    pub allocations: usize,
}

impl Window {
    pub fn end(self) -> Usage {
        Usage {
            peak_delta: PEAK.load(Relaxed).saturating_sub(self.base_live),
            max_request: MAXREQ.load(Relaxed),
            allocations: NALLOC.load(Relaxed) - self.base_n,
        }
    }
}
