//! The one PRNG every simulated decision is drawn from (xoshiro256**, seeded
//! through SplitMix64).  Own implementation so that no dependency upgrade can
//! change the stream; implements `rand_core::RngCore` so the library's
//! `UniformRand` can draw from it.

#[derive(Clone, Debug)]
pub struct Rng {
    s: [u64; 4],
    pub draws: u64,
}

#[inline]
pub fn splitmix(x: &mut u64) -> u64 {
    *x = x.wrapping_add(0x9E37_79B9_7F4A_7C15);
    let mut z = *x;
    z = (z ^ (z >> 30)).wrapping_mul(0xBF58_476D_1CE4_E5B9);
    z = (z ^ (z >> 27)).wrapping_mul(0x94D0_49BB_1331_11EB);
    z ^ (z >> 31)
}

/// Mix a base seed with an engine id and a run index into a run seed.
pub fn mix(seed: u64, engine: u64, idx: u64) -> u64 {
    let mut x = seed ^ 0xA076_1D64_78BD_642F;
    let a = splitmix(&mut x);
    let mut y = a ^ engine.wrapping_mul(0xE703_7ED1_A0B4_28DB);
    let b = splitmix(&mut y);
    let mut z = b ^ idx.wrapping_mul(0x8EBC_6AF0_9C88_C6E3);
    splitmix(&mut z)
}

impl Rng {
    pub fn new(seed: u64) -> Self {
        let mut x = seed;
        let s = [
            splitmix(&mut x),
            splitmix(&mut x),
            splitmix(&mut x),
            splitmix(&mut x),
        ];
        Rng { s, draws: 0 }
    }
    #[inline]
    pub fn u64(&mut self) -> u64 {
        self.draws += 1;
        let r = self.s[1].wrapping_mul(5).rotate_left(7).wrapping_mul(9);
        let t = self.s[1] << 17;
        self.s[2] ^= self.s[0];
        self.s[3] ^= self.s[1];
        self.s[1] ^= self.s[2];
        self.s[0] ^= self.s[3];
        self.s[2] ^= t;
        self.s[3] = self.s[3].rotate_left(45);
        r
    }
    /// uniform in 0..n (n > 0); modulo bias is irrelevant here.
    #[inline]
    pub fn below(&mut self, n: usize) -> usize {
        if n <= 1 {
            return 0;
        }
        (self.u64() % (n as u64)) as usize
    }
    /// inclusive range
    #[inline]
    pub fn range(&mut self, lo: usize, hi: usize) -> usize {
        if hi <= lo {
            return lo;
        }
        lo + self.below(hi - lo + 1)
    }
    /// true with probability num/den
    #[inline]
    pub fn chance(&mut self, num: u32, den: u32) -> bool {
        (self.u64() % den as u64) < num as u64
    }
    pub fn pick<'a, T>(&mut self, xs: &'a [T]) -> &'a T {
        &xs[self.below(xs.len())]
    }
    pub fn bytes(&mut self, n: usize) -> Vec<u8> {
        let mut v = vec![0u8; n];
        self.fill(&mut v);
        v
    }
    pub fn fill(&mut self, dest: &mut [u8]) {
        for c in dest.chunks_mut(8) {
            let x = self.u64().to_le_bytes();
            c.copy_from_slice(&x[..c.len()]);
        }
    }
    /// derive an independent child stream
    pub fn fork(&mut self) -> u64 {
        self.u64()
    }
}

impl rand_core::RngCore for Rng {
    fn next_u32(&mut self) -> u32 {
        (self.u64() >> 32) as u32
    }
    fn next_u64(&mut self) -> u64 {
        self.u64()
    }
    fn fill_bytes(&mut self, dest: &mut [u8]) {
        self.fill(dest)
    }
    fn try_fill_bytes(&mut self, dest: &mut [u8]) -> Result<(), rand_core::Error> {
        self.fill(dest);
        Ok(())
    }
}

/// 64-bit running digest (FNV-1a over u64 words with a final avalanche).
#[derive(Clone, Copy, Debug)]
pub struct Digest(pub u64);
impl Default for Digest {
    fn default() -> Self {
        Digest(0xcbf2_9ce4_8422_2325)
    }
}
impl Digest {
    #[inline]
    pub fn add(&mut self, w: u64) {
        let mut h = self.0;
        for b in w.to_le_bytes() {
            h ^= b as u64;
            h = h.wrapping_mul(0x0000_0100_0000_01B3);
        }
        self.0 = h;
    }
    pub fn add_bytes(&mut self, bs: &[u8]) {
        let mut h = self.0;
        for &b in bs {
            h ^= b as u64;
            h = h.wrapping_mul(0x0000_0100_0000_01B3);
        }
        self.0 = h;
        self.add(bs.len() as u64);
    }
    pub fn add_str(&mut self, s: &str) {
        self.add_bytes(s.as_bytes())
    }
    pub fn finish(&self) -> u64 {
        let mut x = self.0;
        splitmix(&mut x)
    }
}
