//! Check driver, worker pool with crash attribution, replay, shrinking,
//! known-findings handling and the evidence writer.  Engine-independent.

use serde_json::{json, Map, Value};
use std::collections::{BTreeMap, HashMap, HashSet};
use std::io::{BufRead, BufReader, Write};
use std::path::{Path, PathBuf};
use std::process::{Command, Stdio};
use std::time::Instant;

pub const DEFAULT_SEED: u64 = 20260926;

#[derive(Clone, Debug)]
pub struct Violation {
    pub prop: String,
    /// stable id of the violated invariant, e.g. "R3.panic"
    pub invariant: String,
    /// signature used for grouping and known-finding matching
    pub sig: String,
    pub detail: String,
}

#[derive(Default, Clone, Debug)]
pub struct Stats {
    pub runs: u64,
    pub counters: BTreeMap<String, u64>,
    pub nontrivial: HashSet<u64>,
    pub samples: Vec<Value>,
}

impl Stats {
    #[inline]
    pub fn bump(&mut self, k: &str) {
        self.add(k, 1)
    }
    #[inline]
    pub fn add(&mut self, k: &str, n: u64) {
        if let Some(c) = self.counters.get_mut(k) {
            *c += n;
        } else {
            self.counters.insert(k.to_string(), n);
        }
    }
    pub fn max(&mut self, k: &str, n: u64) {
        let e = self.counters.entry(k.to_string()).or_insert(0);
        if n > *e {
            *e = n;
        }
    }
    fn to_json(&self) -> Value {
        json!({"runs": self.runs, "counters": self.counters, "samples": self.samples})
    }
    fn merge_json(&mut self, v: &Value) {
        self.runs += v["runs"].as_u64().unwrap_or(0);
        if let Some(m) = v["counters"].as_object() {
            for (k, n) in m {
                let n = n.as_u64().unwrap_or(0);
                if k.starts_with("max.") {
                    self.max(k, n)
                } else {
                    self.add(k, n)
                }
            }
        }
        if let Some(a) = v["samples"].as_array() {
            for s in a {
                if self.samples.len() < 6 {
                    self.samples.push(s.clone());
                }
            }
        }
    }
}

pub struct RunOut {
    pub digest: u64,
    pub nontrivial: bool,
    /// number of executions this run stands for (1, or many for a sweep)
    pub evals: u64,
    pub violation: Option<Violation>,
    /// explicit description (present when requested or on violation)
    pub desc: Option<Value>,
}

pub struct EvidenceParts {
    pub level: &'static str,
    pub rule: String,
    pub assumptions: Vec<String>,
    pub extras: Map<String, Value>,
}

pub trait Engine {
    fn name(&self) -> &'static str;
    fn props(&self) -> Vec<&'static str>;
    fn total_runs(&self, prop: &str, tier: &str) -> u64;
    fn run_seeded(
        &mut self,
        prop: &str,
        seed: u64,
        idx: u64,
        tier: &str,
        stats: &mut Stats,
        want_desc: bool,
    ) -> RunOut;
    /// The explicit description of run `idx` without executing it.
    fn describe(&mut self, prop: &str, seed: u64, idx: u64, tier: &str) -> Value;
    /// Execute an explicit description (PRNG not consulted for decisions).
    fn run_desc(&mut self, prop: &str, desc: &Value, stats: &mut Stats) -> RunOut;
    fn shrink_candidates(&self, desc: &Value) -> Vec<Value>;
    fn evidence(&self, prop: &str, tier: &str, stats: &Stats) -> EvidenceParts;
    /// Extra work before workers start (e.g. spawn an oracle); default none.
    fn prepare(&mut self, _role: &str) {}
}

pub fn root() -> PathBuf {
    PathBuf::from(std::env::var("VERIF_ROOT").unwrap_or_else(|_| "/verif".into()))
}

fn tmp_dir() -> PathBuf {
    let p = root().join("sim/target/tmp");
    let _ = std::fs::create_dir_all(&p);
    p
}

fn hang_secs() -> u64 {
    env_u64("VERIF_HANG_SECS").unwrap_or(240)
}

fn env_u64(k: &str) -> Option<u64> {
    std::env::var(k).ok().and_then(|s| s.trim().parse().ok())
}

pub fn seed_from_env() -> u64 {
    env_u64("VERIF_SEED").unwrap_or(DEFAULT_SEED)
}

fn write_status(fd: i32, idx: u64) {
    let s = format!("RUN {:<27}\n", idx as i64);
    debug_assert_eq!(s.len(), 32);
    unsafe {
        libc::lseek(fd, 0, libc::SEEK_SET);
        libc::write(fd, s.as_ptr() as *const libc::c_void, s.len());
        libc::ftruncate(fd, 32);
    }
}

pub fn install_panic_capture() {
    std::panic::set_hook(Box::new(|info| {
        let loc = info
            .location()
            .map(|l| format!("{}:{}", l.file(), l.line()))
            .unwrap_or_default();
        let msg = if let Some(s) = info.payload().downcast_ref::<&str>() {
            s.to_string()
        } else if let Some(s) = info.payload().downcast_ref::<String>() {
            s.clone()
        } else {
            "<non-string panic>".to_string()
        };
        LAST_PANIC.with(|p| *p.borrow_mut() = Some((loc, msg)));
    }));
}

thread_local! {
    pub static LAST_PANIC: std::cell::RefCell<Option<(String, String)>> = const { std::cell::RefCell::new(None) };
}

/// (location, message) of the last captured panic, cleared on read.
pub fn take_panic() -> (String, String) {
    LAST_PANIC
        .with(|p| p.borrow_mut().take())
        .unwrap_or_default()
}

/// Strip digits so that panic messages with indices group together.
pub fn msg_class(msg: &str) -> String {
    let mut out = String::new();
    let mut last_hash = false;
    for ch in msg.chars().take(80) {
        if ch.is_ascii_digit() {
            if !last_hash {
                out.push('#');
                last_hash = true;
            }
        } else {
            out.push(ch);
            last_hash = false;
        }
    }
    out
}

/// Location with the repository prefix and line number removed (so that a
/// signature survives unrelated edits above the panic site).
pub fn loc_class(loc: &str) -> String {
    let l = loc.rsplit_once(':').map(|x| x.0).unwrap_or(loc);
    let l = l.strip_prefix("/repo/").unwrap_or(l);
    if let Some(p) = l.find("/library/") {
        return format!("std{}", &l[p + 8..]);
    }
    if let Some(p) = l.find("/registry/src/") {
        let rest = &l[p + 14..];
        return rest.split_once('/').map(|x| x.1).unwrap_or(rest).to_string();
    }
    l.to_string()
}

// ---------------------------------------------------------------- worker

#[allow(clippy::too_many_arguments)]
fn worker(engine: &mut dyn Engine, a: &[String]) -> i32 {
    let prop = &a[0];
    let tier = &a[1];
    let seed: u64 = a[2].parse().unwrap();
    let start: u64 = a[3].parse().unwrap();
    let stride: u64 = a[4].parse().unwrap();
    let total: u64 = a[5].parse().unwrap();
    let status = &a[6];
    let digests = &a[7];
    let resample: bool = a.get(8).map(|s| s == "1").unwrap_or(false);
    let cpath = std::ffi::CString::new(status.as_str()).unwrap();
    let fd = unsafe { libc::open(cpath.as_ptr(), libc::O_CREAT | libc::O_RDWR, 0o644) };
    crate::alloc::set_status_fd(fd);
    install_panic_capture();
    engine.prepare("worker");
    let stdout = std::io::stdout();
    let mut out = stdout.lock();
    let mut stats = Stats::default();
    let mut nviol = 0u32;
    let mut idx = start;
    let mut since = 0u64;
    while idx < total {
        write_status(fd, idx);
        let want = stats.samples.len() < 3;
        let r = engine.run_seeded(prop, seed, idx, tier, &mut stats, want);
        stats.runs += r.evals;
        if r.nontrivial {
            stats.nontrivial.insert(r.digest);
            if want {
                if let Some(d) = &r.desc {
                    // keep the evidence file small: only compact descriptions serve as samples
                    if d.to_string().len() <= 2500 {
                        stats.samples.push(d.clone());
                    }
                }
            }
        }
        if idx % 50 == 7 {
            let _ = writeln!(out, "{}", json!({"t":"dig","idx":idx,"d":format!("{:016x}", r.digest)}));
        }
        if let Some(v) = r.violation {
            nviol += 1;
            if nviol <= 200 {
                let _ = writeln!(
                    out,
                    "{}",
                    json!({"t":"viol","idx":idx,"invariant":v.invariant,"sig":v.sig,"detail":v.detail,
                           "desc": if nviol <= 40 { r.desc.unwrap_or(Value::Null) } else { Value::Null }})
                );
            }
        }
        since += 1;
        if since >= 2000 {
            since = 0;
            let _ = writeln!(out, "{}", json!({"t":"prog","next":idx+stride,"stats":stats.to_json()}));
        }
        idx += stride;
    }
    write_status(fd, u64::MAX);
    if resample {
        // determinism resample: re-execute a sample of the neighbour's runs
        let mut scratch = Stats::default();
        let s2 = (start + 1) % stride;
        let mut idx = s2;
        while idx < total {
            if idx % 50 == 7 {
                write_status(fd, idx);
                let r = engine.run_seeded(prop, seed, idx, tier, &mut scratch, false);
                let _ = writeln!(out, "{}", json!({"t":"redig","idx":idx,"d":format!("{:016x}", r.digest)}));
            }
            idx += stride;
        }
    }
    write_status(fd, u64::MAX);
    let mut bytes = Vec::with_capacity(stats.nontrivial.len() * 8);
    for d in &stats.nontrivial {
        bytes.extend_from_slice(&d.to_le_bytes());
    }
    let _ = std::fs::write(digests, bytes);
    let _ = writeln!(out, "{}", json!({"t":"done","stats":stats.to_json()}));
    0
}

// ---------------------------------------------------------------- driver

struct RawViol {
    idx: u64,
    invariant: String,
    sig: String,
    detail: String,
    desc: Value,
}

struct WorkerResult {
    stats: Value,
    viols: Vec<RawViol>,
    digs: Vec<(u64, String)>,
    redigs: Vec<(u64, String)>,
    done: bool,
    crashed_at: Option<(u64, String)>,
    next: u64,
}

#[allow(clippy::too_many_arguments)]
fn run_worker(
    exe: &Path,
    prop: &str,
    tier: &str,
    seed: u64,
    start: u64,
    stride: u64,
    total: u64,
    slot: u64,
    resample: bool,
) -> WorkerResult {
    let tmp = tmp_dir();
    let status = tmp.join(format!("status.{}.{}.{}", prop, std::process::id(), slot));
    let digests = tmp.join(format!("digests.{}.{}.{}.{}", prop, std::process::id(), slot, start));
    let _ = std::fs::remove_file(&status);
    let mut child = Command::new(exe)
        .args([
            "worker",
            prop,
            tier,
            &seed.to_string(),
            &start.to_string(),
            &stride.to_string(),
            &total.to_string(),
            status.to_str().unwrap(),
            digests.to_str().unwrap(),
            if resample { "1" } else { "0" },
        ])
        .stdout(Stdio::piped())
        .stderr(Stdio::null())
        .spawn()
        .expect("spawn worker");
    let rd = BufReader::new(child.stdout.take().unwrap());
    // wall-clock watchdog: a run that stays in flight for HANG_SECS is killed
    let hung = std::sync::Arc::new(std::sync::atomic::AtomicBool::new(false));
    let finished = std::sync::Arc::new(std::sync::atomic::AtomicBool::new(false));
    {
        let hung = hung.clone();
        let finished = finished.clone();
        let status = status.clone();
        let pid = child.id() as i32;
        std::thread::spawn(move || {
            let mut last = String::new();
            let mut since = Instant::now();
            loop {
                std::thread::sleep(std::time::Duration::from_millis(1000));
                if finished.load(std::sync::atomic::Ordering::Relaxed) {
                    return;
                }
                let cur = std::fs::read_to_string(&status).unwrap_or_default();
                let cur = cur.lines().next().unwrap_or("").to_string();
                if cur != last {
                    last = cur;
                    since = Instant::now();
                } else if since.elapsed().as_secs() >= hang_secs() {
                    hung.store(true, std::sync::atomic::Ordering::Relaxed);
                    unsafe {
                        libc::kill(pid, libc::SIGKILL);
                    }
                    return;
                }
            }
        });
    }
    let mut res = WorkerResult {
        stats: Value::Null,
        viols: vec![],
        digs: vec![],
        redigs: vec![],
        done: false,
        crashed_at: None,
        next: start,
    };
    for line in rd.lines() {
        let Ok(line) = line else { break };
        let Ok(v) = serde_json::from_str::<Value>(&line) else { continue };
        match v["t"].as_str().unwrap_or("") {
            "dig" => res.digs.push((v["idx"].as_u64().unwrap(), v["d"].as_str().unwrap().into())),
            "redig" => res.redigs.push((v["idx"].as_u64().unwrap(), v["d"].as_str().unwrap().into())),
            "viol" => res.viols.push(RawViol {
                idx: v["idx"].as_u64().unwrap(),
                invariant: v["invariant"].as_str().unwrap().into(),
                sig: v["sig"].as_str().unwrap().into(),
                detail: v["detail"].as_str().unwrap().into(),
                desc: v["desc"].clone(),
            }),
            "prog" => {
                res.stats = v["stats"].clone();
                res.next = v["next"].as_u64().unwrap();
            },
            "done" => {
                res.stats = v["stats"].clone();
                res.done = true;
            },
            _ => {},
        }
    }
    let st = child.wait().expect("wait worker");
    finished.store(true, std::sync::atomic::Ordering::Relaxed);
    let was_hung = hung.load(std::sync::atomic::Ordering::Relaxed);
    if !res.done || !st.success() {
        let s = std::fs::read_to_string(&status).unwrap_or_default();
        let mut it = s.split_whitespace();
        let idx = if it.next() == Some("RUN") {
            it.next().and_then(|x| x.parse::<i64>().ok())
        } else {
            None
        };
        let rest: Vec<&str> = it.collect();
        let note = format!("{}{} {}", if was_hung { "HANG " } else { "" }, st, rest.join(" "));
        let idx = idx.map(|i| i as u64);
        if let Some(i) = idx {
            if i != u64::MAX {
                res.crashed_at = Some((i, note));
            }
        }
        res.done = false;
    }
    let _ = std::fs::remove_file(&status);
    res.stats["__digests"] = json!(digests.to_str().unwrap());
    res
}

fn load_known(prop: &str) -> (Vec<(String, String)>, Vec<String>) {
    // returns (known signatures with description, fixed signatures)
    let p = root().join("known_findings.json");
    let mut known = vec![];
    let mut fixed = vec![];
    if let Ok(s) = std::fs::read_to_string(p) {
        if let Ok(v) = serde_json::from_str::<Value>(&s) {
            if let Some(a) = v["findings"].as_array() {
                for e in a {
                    if e["property"].as_str() != Some(prop) {
                        continue;
                    }
                    let sig = e["signature"].as_str().unwrap_or("").to_string();
                    let what = e["what"].as_str().unwrap_or("").to_string();
                    match e["status"].as_str() {
                        Some("known") => known.push((sig, what)),
                        Some("fixed") => fixed.push(sig),
                        _ => {},
                    }
                }
            }
        }
    }
    (known, fixed)
}

fn file_stem_safe(s: &str) -> String {
    s.chars()
        .map(|c| if c.is_ascii_alphanumeric() { c } else { '_' })
        .take(60)
        .collect()
}

pub fn check(engine: &mut dyn Engine, prop: &str, tier: &str) -> i32 {
    let t0 = Instant::now();
    let seed = seed_from_env();
    let workers = env_u64("VERIF_WORKERS").unwrap_or(16).max(1);
    let total = env_u64("VERIF_RUNS").unwrap_or_else(|| engine.total_runs(prop, tier));
    let exe = std::env::current_exe().expect("current_exe");
    println!(
        "check engine={} property={} tier={} seed={} runs={} workers={}",
        engine.name(),
        prop,
        tier,
        seed,
        total,
        workers
    );
    // workers in parallel threads (each thread babysits one process chain)
    let mut handles = vec![];
    for w in 0..workers {
        let exe = exe.clone();
        let prop = prop.to_string();
        let tier = tier.to_string();
        handles.push(std::thread::spawn(move || {
            let mut results = vec![];
            let mut start = w;
            let mut crashes = 0;
            loop {
                let r = run_worker(&exe, &prop, &tier, seed, start, workers, total, w, true);
                let crashed = r.crashed_at.clone();
                let done = r.done;
                let next = r.next;
                results.push(r);
                if done {
                    break;
                }
                crashes += 1;
                let hung = matches!(&crashed, Some((_, n)) if n.starts_with("HANG"));
                if crashes >= 3 || hung {
                    // enough evidence from this chain; do not keep burning wall-clock
                    break;
                }
                match crashed {
                    Some((i, _)) => start = i + workers,
                    None => {
                        // died without a status: skip past the last progress mark
                        if next <= start {
                            break;
                        }
                        start = next;
                    },
                }
                if start >= total {
                    break;
                }
            }
            results
        }));
    }
    let mut stats = Stats::default();
    let mut viols: Vec<RawViol> = vec![];
    let mut digs: HashMap<u64, String> = HashMap::new();
    let mut redigs: Vec<(u64, String)> = vec![];
    let mut harness_errors: Vec<String> = vec![];
    let mut crash_count = 0u64;
    for h in handles {
        let results = h.join().expect("worker thread");
        for r in results {
            stats.merge_json(&r.stats);
            if let Some(p) = r.stats["__digests"].as_str() {
                if let Ok(b) = std::fs::read(p) {
                    for c in b.chunks_exact(8) {
                        stats.nontrivial.insert(u64::from_le_bytes(c.try_into().unwrap()));
                    }
                }
                let _ = std::fs::remove_file(p);
            }
            for d in r.digs {
                digs.insert(d.0, d.1);
            }
            redigs.extend(r.redigs);
            viols.extend(r.viols);
            if let Some((idx, note)) = r.crashed_at {
                crash_count += 1;
                let oversize = note.contains("OVERSIZE");
                let hang = note.starts_with("HANG");
                let inv = if hang {
                    "abort.hang"
                } else if oversize {
                    "abort.oversize_allocation"
                } else {
                    "abort.process_died"
                };
                let mut desc = engine.describe(prop, seed, idx, tier);
                desc["expect_abort"] = json!(true);
                if hang {
                    desc["expect_hang"] = json!(true);
                }
                let entry = desc["entry"].as_str().unwrap_or("?").to_string();
                viols.push(RawViol {
                    idx,
                    invariant: inv.into(),
                    sig: format!("{}|{}|{}", engine.name(), entry, inv),
                    detail: format!("worker process died in run {}: {}", idx, note),
                    desc,
                });
            } else if !r.done {
                harness_errors.push("worker ended without summary and without status".into());
            }
        }
    }
    // determinism resample
    let mut det_checked = 0u64;
    let mut det_mismatch = 0u64;
    for (idx, d) in &redigs {
        if let Some(o) = digs.get(idx) {
            det_checked += 1;
            if o != d {
                det_mismatch += 1;
                if det_mismatch <= 3 {
                    harness_errors.push(format!("nondeterminism: run {} digest {} vs {}", idx, o, d));
                }
            }
        }
    }

    // violations: group by signature, minimise, verify replay
    viols.sort_by_key(|v| v.idx);
    let (known, _fixed) = load_known(prop);
    let mut groups: Vec<(String, Vec<&RawViol>)> = vec![];
    for v in &viols {
        if let Some(g) = groups.iter_mut().find(|g| g.0 == v.sig) {
            g.1.push(v);
        } else {
            groups.push((v.sig.clone(), vec![v]));
        }
    }
    let replay_dir = root().join("replays");
    let mut unlisted = 0u64;
    let mut known_hits = 0u64;
    let mut lines: Vec<String> = vec![];
    for (gi, (sig, vs)) in groups.iter().enumerate() {
        let is_known = known.iter().find(|k| &k.0 == sig);
        if let Some(k) = is_known {
            known_hits += 1;
            lines.push(format!(
                "KNOWN-FINDING: property={} {} (signature {}; {} runs)",
                prop,
                k.1,
                sig,
                vs.len()
            ));
            continue;
        }
        if gi >= 6 {
            unlisted += 1;
            continue;
        }
        let Some(v) = vs.iter().find(|v| !v.desc.is_null()) else { continue };
        let _ = std::fs::create_dir_all(&replay_dir);
        let base = format!("{}-{}-{}-{}", prop, file_stem_safe(&v.invariant), seed, v.idx);
        let raw_path = replay_dir.join(format!("{}.raw.json", base));
        let min_path = replay_dir.join(format!("{}.json", base));
        let file = json!({
            "engine": engine.name(), "property": prop, "seed": seed, "run_index": v.idx, "tier": tier,
            "invariant": v.invariant, "signature": v.sig, "detail": v.detail, "desc": v.desc,
        });
        std::fs::write(&raw_path, serde_json::to_string_pretty(&file).unwrap()).unwrap();
        // shrink in a subprocess (bounded)
        let shr = Command::new(&exe)
            .args(["shrink", raw_path.to_str().unwrap(), min_path.to_str().unwrap()])
            .stdout(Stdio::null())
            .stderr(Stdio::null())
            .status();
        let final_path = if matches!(shr, Ok(s) if s.success()) && min_path.exists() {
            let _ = std::fs::remove_file(&raw_path);
            min_path
        } else {
            let _ = std::fs::rename(&raw_path, &min_path);
            min_path
        };
        // verify in a fresh process
        let rp = Command::new(&exe)
            .args(["replay", final_path.to_str().unwrap()])
            .stdout(Stdio::piped())
            .stderr(Stdio::null())
            .output();
        let reproduced = matches!(&rp, Ok(o) if o.status.code() == Some(1));
        if reproduced {
            unlisted += 1;
            lines.push(format!(
                "violation: invariant={} signature={} runs={} first_run={} detail={}",
                v.invariant,
                sig,
                vs.len(),
                v.idx,
                v.detail
            ));
            lines.push(format!("VIOLATION property={} replay={}", prop, final_path.display()));
        } else {
            harness_errors.push(format!(
                "replay of {} did not reproduce (invariant {})",
                final_path.display(),
                v.invariant
            ));
        }
    }

    // evidence
    let parts = engine.evidence(prop, tier, &stats);
    let wall = t0.elapsed().as_secs_f64();
    let mut cov = Map::new();
    cov.insert("evaluations".into(), json!(stats.runs));
    cov.insert("distinct_nontrivial".into(), json!(stats.nontrivial.len()));
    cov.insert("rule".into(), json!(parts.rule));
    cov.insert("samples".into(), json!(stats.samples));
    cov.insert("exhaustive".into(), json!(false));
    cov.insert("runs_per_hour".into(), json!((stats.runs as f64 / wall.max(0.001) * 3600.0) as u64));
    cov.insert("seeds".into(), json!({"base_seed": seed, "run_indices": total, "derivation": "run_seed = mix(VERIF_SEED, engine_id, run_index)"}));
    cov.insert("simulated_time".into(), json!("n/a (the system under test has no clocks or timers)"));
    cov.insert(
        "determinism_resample".into(),
        json!({"checked": det_checked, "mismatches": det_mismatch}),
    );
    cov.insert("worker_process_crashes".into(), json!(crash_count));
    cov.insert("known_findings_hit".into(), json!(known_hits));
    let mut faults = Map::new();
    let mut probes = Map::new();
    let mut other = Map::new();
    for (k, n) in &stats.counters {
        if let Some(f) = k.strip_prefix("fault.") {
            faults.insert(f.into(), json!(n));
        } else if let Some(f) = k.strip_prefix("probe.") {
            probes.insert(f.into(), json!(n));
        } else {
            other.insert(k.clone(), json!(n));
        }
    }
    cov.insert("fault_kinds_fired".into(), Value::Object(faults));
    cov.insert("probes".into(), Value::Object(probes));
    cov.insert("counters".into(), Value::Object(other));
    for (k, v) in parts.extras {
        cov.insert(k, v);
    }
    let ev = json!({
        "property_id": prop, "tier": tier, "seed": seed, "level": parts.level,
        "coverage": Value::Object(cov), "assumptions": parts.assumptions,
        "wall_s": wall, "violations": unlisted,
    });
    let evdir = root().join("evidence");
    let _ = std::fs::create_dir_all(&evdir);
    let evpath = evdir.join(format!("{}.json", prop));
    // write-then-rename so that a reader never sees a partial file
    let tmp_path = evdir.join(format!(".{}.json.tmp", prop));
    let wrote = std::fs::write(&tmp_path, serde_json::to_string_pretty(&ev).unwrap())
        .and_then(|_| std::fs::rename(&tmp_path, &evpath));
    if let Err(e) = wrote {
        harness_errors.push(format!("cannot write evidence: {}", e));
    }
    for l in &lines {
        println!("{}", l);
    }
    println!(
        "summary property={} runs={} distinct_nontrivial={} violations={} known={} crashes={} det_checked={} wall_s={:.1}",
        prop,
        stats.runs,
        stats.nontrivial.len(),
        unlisted,
        known_hits,
        crash_count,
        det_checked,
        wall
    );
    if unlisted > 0 {
        return 1;
    }
    if !harness_errors.is_empty() {
        for e in &harness_errors {
            println!("HARNESS-ERROR {}", e);
        }
        return 2;
    }
    0
}

// ---------------------------------------------------------------- replay / shrink

fn run_file_inner(engine: &mut dyn Engine, path: &str) -> i32 {
    install_panic_capture();
    engine.prepare("replay");
    let Ok(s) = std::fs::read_to_string(path) else { return 2 };
    let Ok(f) = serde_json::from_str::<Value>(&s) else { return 2 };
    let prop = f["property"].as_str().unwrap_or("");
    let mut st = Stats::default();
    let r = engine.run_desc(prop, &f["desc"], &mut st);
    match r.violation {
        Some(v) => {
            println!("replayed: invariant={} signature={} detail={}", v.invariant, v.sig, v.detail);
            if v.invariant == f["invariant"].as_str().unwrap_or("") {
                3
            } else {
                4
            }
        },
        None => {
            println!("replayed: no violation");
            0
        },
    }
}

pub fn replay(path: &str) -> i32 {
    let exe = std::env::current_exe().unwrap();
    let Ok(s) = std::fs::read_to_string(path) else {
        println!("HARNESS-ERROR cannot read {}", path);
        return 2;
    };
    let Ok(f) = serde_json::from_str::<Value>(&s) else {
        println!("HARNESS-ERROR cannot parse {}", path);
        return 2;
    };
    let expect_abort = f["desc"]["expect_abort"].as_bool().unwrap_or(false);
    let expect_hang = f["desc"]["expect_hang"].as_bool().unwrap_or(false);
    let prop = f["property"].as_str().unwrap_or("?");
    let mut child = Command::new(&exe)
        .args(["replay-inner", path])
        .stderr(Stdio::null())
        .stdout(Stdio::piped())
        .spawn()
        .expect("spawn replay-inner");
    let t0 = Instant::now();
    let mut killed = false;
    let status = loop {
        match child.try_wait() {
            Ok(Some(st)) => break st,
            Ok(None) => {
                if t0.elapsed().as_secs() >= hang_secs() {
                    let _ = child.kill();
                    killed = true;
                }
                std::thread::sleep(std::time::Duration::from_millis(50));
            },
            Err(_) => return 2,
        }
    };
    let mut outs = String::new();
    if let Some(mut so) = child.stdout.take() {
        use std::io::Read;
        let _ = so.read_to_string(&mut outs);
    }
    print!("{}", outs);
    let reproduced = if killed {
        println!("replayed: still running after {} s, killed", hang_secs());
        expect_hang
    } else {
        match status.code() {
            Some(3) => true,
            None => {
                println!("replayed: process died ({})", status);
                expect_abort && !expect_hang
            },
            _ => false,
        }
    };
    if reproduced {
        println!("VIOLATION property={} replay={}", prop, path);
        1
    } else {
        println!("NOT-REPRODUCED {}", path);
        0
    }
}

fn shrink(engine: &mut dyn Engine, inp: &str, outp: &str) -> i32 {
    install_panic_capture();
    engine.prepare("replay");
    let Ok(s) = std::fs::read_to_string(inp) else { return 2 };
    let Ok(mut f) = serde_json::from_str::<Value>(&s) else { return 2 };
    if f["desc"]["expect_abort"].as_bool().unwrap_or(false) {
        return 2; // aborting runs are not shrunk in-process
    }
    let prop = f["property"].as_str().unwrap_or("").to_string();
    let inv = f["invariant"].as_str().unwrap_or("").to_string();
    let sig = f["signature"].as_str().unwrap_or("").to_string();
    let mut cur = f["desc"].clone();
    let mut budget = 200;
    let mut steps = 0;
    let mut detail = f["detail"].clone();
    'outer: loop {
        let cands = engine.shrink_candidates(&cur);
        for c in cands {
            if budget == 0 {
                break 'outer;
            }
            budget -= 1;
            let mut st = Stats::default();
            let r = engine.run_desc(&prop, &c, &mut st);
            if let Some(v) = r.violation {
                if v.invariant == inv && v.sig == sig {
                    cur = c;
                    detail = json!(v.detail);
                    steps += 1;
                    continue 'outer;
                }
            }
        }
        break;
    }
    f["desc"] = cur;
    f["detail"] = detail;
    f["shrink_steps"] = json!(steps);
    f["shrink_executions"] = json!(200 - budget);
    std::fs::write(outp, serde_json::to_string_pretty(&f).unwrap()).unwrap();
    0
}

/// `detrun <prop> <tier> <n>`: print "idx digest" for the first n runs (used by the determinism self-test).
fn detrun(engine: &mut dyn Engine, a: &[String]) -> i32 {
    install_panic_capture();
    engine.prepare("worker");
    let prop = &a[0];
    let tier = &a[1];
    let n: u64 = a[2].parse().unwrap();
    let start: u64 = a.get(3).map(|s| s.parse().unwrap()).unwrap_or(0);
    let stride: u64 = a.get(4).map(|s| s.parse().unwrap()).unwrap_or(1);
    let seed = seed_from_env();
    let mut st = Stats::default();
    let mut idx = start;
    while idx < n {
        let r = engine.run_seeded(prop, seed, idx, tier, &mut st, false);
        println!("{} {:016x} {}", idx, r.digest, r.violation.map(|v| v.invariant).unwrap_or_default());
        idx += stride;
    }
    0
}

pub fn main_with(engine: &mut dyn Engine) -> ! {
    let args: Vec<String> = std::env::args().skip(1).collect();
    let code = match args.first().map(|s| s.as_str()) {
        Some("check") => {
            let prop = args.get(1).cloned().unwrap_or_default();
            let mut tier = std::env::var("VERIF_TIER").unwrap_or_else(|_| "quick".into());
            let mut i = 2;
            while i < args.len() {
                if args[i] == "--tier" && i + 1 < args.len() {
                    tier = args[i + 1].clone();
                    i += 1;
                }
                i += 1;
            }
            if !engine.props().contains(&prop.as_str()) {
                println!("HARNESS-ERROR engine {} does not serve property {}", engine.name(), prop);
                2
            } else {
                check(engine, &prop, &tier)
            }
        },
        Some("worker") => worker(engine, &args[1..]),
        Some("replay") => replay(&args[1]),
        Some("replay-inner") => run_file_inner(engine, &args[1]),
        Some("shrink") => shrink(engine, &args[1], &args[2]),
        Some("detrun") => detrun(engine, &args[1..]),
        Some("describe") => {
            let seed = seed_from_env();
            let d = engine.describe(&args[1], seed, args[2].parse().unwrap(), args.get(3).map(|s| s.as_str()).unwrap_or("quick"));
            println!("{}", serde_json::to_string_pretty(&d).unwrap());
            0
        },
        _ => {
            println!("usage: check <prop> [--tier quick|thorough] | replay <file> | detrun <prop> <tier> <n> | describe <prop> <idx>");
            2
        },
    };
    std::process::exit(code)
}
