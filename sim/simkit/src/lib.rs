pub mod alloc;
pub mod driver;
pub mod rng;
pub use rng::{mix, Digest, Rng};
pub use serde_json;
