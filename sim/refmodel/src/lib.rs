//! Reference group law: textbook Jacobian (short Weierstrass) and projective
//! unified (twisted Edwards) formulas written only against the library's
//! *field* arithmetic, plus double-and-add over `BigUint` bits and the naive
//! multi-scalar sum.  Independent of ark-ec's group code.

use ark_ec::short_weierstrass as sw;
use ark_ec::twisted_edwards as te;
use ark_ff::{AdditiveGroup, BigInteger, Field, PrimeField, Zero};
use num_bigint::BigUint;

pub fn modulus<F: PrimeField>() -> BigUint {
    BigUint::from_bytes_le(&F::MODULUS.to_bytes_le())
}

pub fn to_biguint<F: PrimeField>(x: &F) -> BigUint {
    BigUint::from_bytes_le(&x.into_bigint().to_bytes_le())
}

/// A group with an independent reference implementation.
pub trait RefGroup: Copy {
    /// affine coordinates; None = identity
    type Aff: Copy + PartialEq + core::fmt::Debug;
    fn identity() -> Self;
    fn from_affine(a: Option<Self::Aff>) -> Self;
    /// None when the reference law cannot decide (incomplete Edwards law)
    fn add(&self, o: &Self) -> Option<Self>;
    fn to_affine(&self) -> Option<Option<Self::Aff>>;
    fn mul(&self, k: &BigUint) -> Option<Self> {
        let mut acc = Self::identity();
        for i in (0..k.bits()).rev() {
            acc = acc.add(&acc)?;
            if k.bit(i) {
                acc = acc.add(self)?;
            }
        }
        Some(acc)
    }
}

pub struct SwRef<P: sw::SWCurveConfig> {
    pub x: P::BaseField,
    pub y: P::BaseField,
    pub z: P::BaseField,
}
impl<P: sw::SWCurveConfig> Clone for SwRef<P> {
    fn clone(&self) -> Self {
        *self
    }
}
impl<P: sw::SWCurveConfig> Copy for SwRef<P> {}

impl<P: sw::SWCurveConfig> SwRef<P> {
    fn double(&self) -> Self {
        if self.z.is_zero() || self.y.is_zero() {
            return Self::identity();
        }
        let xx = self.x.square();
        let yy = self.y.square();
        let yyyy = yy.square();
        let zz = self.z.square();
        let s = ((self.x + yy).square() - xx - yyyy).double();
        let m = xx.double() + xx + P::COEFF_A * zz.square();
        let t = m.square() - s.double();
        let y3 = m * (s - t) - yyyy.double().double().double();
        let z3 = (self.y + self.z).square() - yy - zz;
        SwRef { x: t, y: y3, z: z3 }
    }
}

impl<P: sw::SWCurveConfig> RefGroup for SwRef<P> {
    type Aff = (P::BaseField, P::BaseField);
    fn identity() -> Self {
        SwRef { x: P::BaseField::ONE, y: P::BaseField::ONE, z: P::BaseField::ZERO }
    }
    fn from_affine(a: Option<Self::Aff>) -> Self {
        match a {
            None => Self::identity(),
            Some((x, y)) => SwRef { x, y, z: P::BaseField::ONE },
        }
    }
    fn add(&self, q: &Self) -> Option<Self> {
        let p = self;
        if p.z.is_zero() {
            return Some(*q);
        }
        if q.z.is_zero() {
            return Some(*p);
        }
        let z1z1 = p.z.square();
        let z2z2 = q.z.square();
        let u1 = p.x * z2z2;
        let u2 = q.x * z1z1;
        let s1 = p.y * q.z * z2z2;
        let s2 = q.y * p.z * z1z1;
        if u1 == u2 {
            if s1 == s2 {
                return Some(p.double());
            }
            return Some(Self::identity());
        }
        let h = u2 - u1;
        let i = h.double().square();
        let j = h * i;
        let r = (s2 - s1).double();
        let v = u1 * i;
        let x3 = r.square() - j - v.double();
        let y3 = r * (v - x3) - (s1 * j).double();
        let z3 = ((p.z + q.z).square() - z1z1 - z2z2) * h;
        Some(SwRef { x: x3, y: y3, z: z3 })
    }
    fn to_affine(&self) -> Option<Option<Self::Aff>> {
        if self.z.is_zero() {
            return Some(None);
        }
        let zi = self.z.inverse().unwrap();
        let zi2 = zi.square();
        Some(Some((self.x * zi2, self.y * zi2 * zi)))
    }
}

pub struct TeRef<P: te::TECurveConfig> {
    pub x: P::BaseField,
    pub y: P::BaseField,
    pub z: P::BaseField,
}
impl<P: te::TECurveConfig> Clone for TeRef<P> {
    fn clone(&self) -> Self {
        *self
    }
}
impl<P: te::TECurveConfig> Copy for TeRef<P> {}

impl<P: te::TECurveConfig> RefGroup for TeRef<P> {
    type Aff = (P::BaseField, P::BaseField);
    fn identity() -> Self {
        TeRef { x: P::BaseField::ZERO, y: P::BaseField::ONE, z: P::BaseField::ONE }
    }
    fn from_affine(a: Option<Self::Aff>) -> Self {
        match a {
            None => Self::identity(),
            Some((x, y)) => TeRef { x, y, z: P::BaseField::ONE },
        }
    }
    /// add-2008-bbjlp (unified); None when Z3 = 0 (law not complete for this curve)
    fn add(&self, q: &Self) -> Option<Self> {
        let p = self;
        let a = p.z * q.z;
        let b = a.square();
        let c = p.x * q.x;
        let d = p.y * q.y;
        let e = P::COEFF_D * c * d;
        let f = b - e;
        let g = b + e;
        let x3 = a * f * ((p.x + p.y) * (q.x + q.y) - c - d);
        let y3 = a * g * (d - P::COEFF_A * c);
        let z3 = f * g;
        if z3.is_zero() {
            return None;
        }
        Some(TeRef { x: x3, y: y3, z: z3 })
    }
    fn to_affine(&self) -> Option<Option<Self::Aff>> {
        let zi = self.z.inverse()?;
        // the identity (0,1) is an ordinary affine point on an Edwards curve
        Some(Some((self.x * zi, self.y * zi)))
    }
}

/// Naive sum of k_i * P_i with memoised per-base multiples left to the caller.
pub fn naive_msm<R: RefGroup>(pairs: &[(Option<R::Aff>, BigUint)]) -> Option<R> {
    let mut acc = R::identity();
    for (p, k) in pairs {
        let t = R::from_affine(*p).mul(k)?;
        acc = acc.add(&t)?;
    }
    Some(acc)
}
