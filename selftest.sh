#!/bin/bash
# Determinism self-test: every engine/property, N run indices, executed three
# times in different process layouts (1, 5 and 16 worker processes); the per-run
# event-log digests must agree.  Exit 0 = deterministic, 2 = divergence.
ROOT="$(cd "$(dirname "$0")" && pwd)"
export VERIF_ROOT="$ROOT"
cd "$ROOT/sim" || exit 2
N_IO=${1:-4000}
N_SCHED=${2:-300}
TMP="$ROOT/sim/target/tmp/selftest.$$"
mkdir -p "$TMP"
rc=0
run_layout() { # bin prop n workers outfile
  local bin=$1 prop=$2 n=$3 w=$4 out=$5
  : > "$out.parts"
  for ((s=0; s<w; s++)); do
    "$ROOT/sim/target/release/$bin" detrun "$prop" quick "$n" "$s" "$w" > "$out.$s" &
  done
  wait
  cat "$out".[0-9]* | sort -n > "$out"
  rm -f "$out".[0-9]* "$out.parts"
}
for spec in "iosim C09 $N_IO" "iosim C10 $N_IO" "iosim C18 $N_IO" "schedsim C14 $N_SCHED" "schedsim C05 $N_SCHED"; do
  set -- $spec
  bin=$1; prop=$2; n=$3
  [ -x "$ROOT/sim/target/release/$bin" ] || { echo "HARNESS-ERROR $bin not built (run ./check build)"; exit 2; }
  run_layout $bin $prop $n 1 "$TMP/$prop.w1"
  run_layout $bin $prop $n 5 "$TMP/$prop.w5"
  run_layout $bin $prop $n 16 "$TMP/$prop.w16"
  lines=$(wc -l < "$TMP/$prop.w1")
  if cmp -s "$TMP/$prop.w1" "$TMP/$prop.w5" && cmp -s "$TMP/$prop.w1" "$TMP/$prop.w16" && [ "$lines" -eq "$n" ]; then
    echo "selftest $prop: $lines runs x 3 process layouts (1/5/16 workers): digests identical"
  else
    echo "HARNESS-ERROR nondeterminism in $bin/$prop:"
    diff "$TMP/$prop.w1" "$TMP/$prop.w16" | head -5
    rc=2
  fi
done
rm -rf "$TMP"
exit $rc
