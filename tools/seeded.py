#!/usr/bin/env python3
"""Run the registered quick checks against the independently written breaking
changes under /verif/seeded/<id>/patch.diff: apply to /repo (git apply), run
./check <property> [and extra properties given after the id], revert.
Usage: tools/seeded.py [id[:PROP,PROP..] ...]   Results: seeded/<id>/check_result.json"""
import subprocess, sys, json, os, time, glob

def sh(cmd):
    return subprocess.run(cmd, shell=True, capture_output=True, text=True)

def main():
    args = sys.argv[1:] or sorted(os.path.basename(d) for d in glob.glob('/verif/seeded/C*'))
    if sh("git -C /repo status --porcelain").stdout.strip():
        print("refusing: /repo not clean"); sys.exit(2)
    for a in args:
        sid, _, props = a.partition(':')
        props = props.split(',') if props else [sid.split('-')[0]]
        d = f'/verif/seeded/{sid}'
        r = sh(f"git -C /repo apply {d}/patch.diff")
        if r.returncode != 0:
            print(sid, "patch does not apply:", r.stderr[:200]); continue
        res = {}
        try:
            for prop in props:
                t0 = time.time()
                env = dict(os.environ)
                c = subprocess.run(["/verif/check", prop], capture_output=True, text=True, env=env, cwd="/verif")
                viol = [l for l in c.stdout.splitlines() if l.startswith("violation:")]
                vlines = [l for l in c.stdout.splitlines() if l.startswith("VIOLATION")]
                summ = [l for l in c.stdout.splitlines() if l.startswith("summary")]
                res[prop] = {"exit": c.returncode, "violations": [v[:400] for v in viol[:4]], "VIOLATION_lines": len(vlines),
                             "summary": summ[-1] if summ else c.stdout[-300:], "wall_s": round(time.time()-t0, 1)}
                # keep one minimised replay as an example
                reps = sorted(glob.glob('/verif/replays/*.json'))
                if reps and not os.path.exists(f'{d}/example_replay.json'):
                    os.system(f'cp {reps[0]} {d}/example_replay.json')
                sh("rm -rf /verif/replays")
                print(f"{sid} {prop}: exit={c.returncode} wall={res[prop]['wall_s']}s  {(viol[0][:220] if viol else res[prop]['summary'][:200])}")
        finally:
            sh("git -C /repo checkout -- .")
        json.dump(res, open(f'{d}/check_result.json', 'w'), indent=1)

main()
