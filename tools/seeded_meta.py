#!/usr/bin/env python3
"""Assemble seeded/<id>/meta.json from the sub-agent's notes, my own confirmation
runs (/tmp/verify-seeded*.log lines, copied into seeded/confirmations.txt) and
the check results."""
import json, os, re, glob
NEEDS = {
 "C05-1": "secp256k1-like 256-bit order, 257..1024 terms (window 8) and a scalar whose top window is all ones with a carry (r-1): the unrecentred last signed digit equals 2^c and indexes past a bucket vector shortened to 2^c-1",
 "C05-2": "HashMapPippenger where an entry's accumulated scalar is exactly zero at finalize (add(P,0), or add(P,k) then add(P,r-k)) with no flush in between: scalars filtered, bases not",
 "C09-1": "the byte string that encodes exactly the modulus p (per coordinate), any mode: accepted and decoded as 0",
 "C09-2": "a field with 0 < spare bits < flag bits (255-bit base field with the 2-bit SWFlags: pallas, vesta, bandersnatch/jubjub SW forms): size advertised 32, 33 written, reader takes flags from the wrong byte",
 "C10-1": "twisted Edwards curve, Validate::Yes, exactly the order-2 point (0,-1)",
 "C10-2": "short Weierstrass, compressed, infinity flag set with non-zero in-range x: Option::unwrap on None",
 "C14-1": "parallel build, coset FFT/IFFT, len/threads > 1024 and chunk size not dividing len (n=4096 on 3 threads)",
 "C14-2": "parallel build, radix-2 FFT with n >= 8192 and a pool of >= 3 threads (intra-chunk parallel butterfly)",
 "C18-1": "a mode-pinning wrapper serialized through CanonicalSerialize in the mode opposite to its pinned one, around a type whose size depends on the mode",
 "C18-2": "Vec/VecDeque of elements >= 2 bytes with a length prefix such that len*size_of::<T>() overflows usize",
 "C05-3": "msm_chunks with a base stream strictly longer than the scalar stream (stream alignment offset)",
 "C05-4": "ChunkedPippenger whose total number of adds is a non-zero exact multiple of the buffer size: finalize returns the identity",
 "C05-5": "checked msm on a twisted Edwards group with strictly more bases than scalars: Ok(truncated sum) instead of Err(min)",
 "C09-3": "a quadratic-extension element serialized with SWFlags/TEFlags over a base prime with fewer spare bits than the flags need (256-bit or 255-bit): size counts the flag byte for both coefficients",
 "C09-4": "ark-bls12-381 G2, compressed, a curve point with y.c1 == 0 whose y.c0 is the larger root (outside the subgroup: unchecked modes): sign bit wrong, decodes to the negation",
 "C09-5": "ark-bls12-381 G1, compressed, a reader that answers the 48-byte request in pieces (short read): valid bytes rejected",
 "C10-3": "compressed point over a quadratic-extension base field with x^3+b in the prime subfield and a non-residue there (constructed input, probability ~2^-382 at random): panic in QuadExtField::sqrt",
 "C10-4": "Vec/array of Option<point> validated as a batch where a None precedes an invalid Some(point)",
 "C10-5": "cofactor-one short Weierstrass curve, uncompressed, Validate::Yes, (x,y) off the curve",
 "C14-3": "parallel build, DensePolynomial::evaluate with more than one chunk and a chunk length max(len/threads,16) that is not a power of two (48 coefficients on 2 threads)",
 "C14-4": "parallel build, mixed-radix domain of size 3*2^a or 9*2^a on a pool of >= 2 threads where best_fft takes the coset-split path",
 "C14-5": "parallel build, batch validity check with len >= 2*threads, len % (len/threads) != 0 and an invalid element in the unchecked tail",
 "C18-3": "derive(CanonicalSerialize) on a struct with a tuple-in-a-tuple field of >= 2 inner elements: wrong field path",
 "C18-4": "BigUint equal to zero: to_bytes_le gives one byte, size computed from bits() reports none",
 "C18-5": "isize read with a reader that returns short reads, or input truncated inside the 8 bytes",
 "C05-6": "ChunkedPippenger: a flush followed by at least one more add (bases buffer not cleared, later chunks multiplied with the first chunk's bases)",
 "C05-7": "short Weierstrass group, an identity base whose scalar gets a negative signed digit (Projective -= Affine rebuilt with new_unchecked loses the infinity flag)",
 "C05-8": "plain-bucket MSM (verif-hooks), a scalar with its top bit set and a window width dividing MODULUS_BIT_SIZE-1 (secp256k1: n < 32 and n == 32; bn384: n < 32)",
 "C09-6": "a writer that accepts fewer bytes than offered, fields of >= 2 limbs: write instead of write_all for the first N-1 limbs",
 "C09-7": "compressed point over an Fp2 whose non-residue is not -1 (BLS12-377, MNT4) with y = (0, y1): wrong root returned silently in unchecked mode",
 "C09-8": "the convenience method deserialize_compressed_unchecked on a curve point outside the subgroup (validates although it must not)",
 "C10-6": "a curve with cofactor > 1 whose lowest cofactor limb is exactly 1 and the default subgroup test (BLS12-377 G2): cofactor_is_one() true, every curve point accepted",
 "C10-7": "the encoding of the integer p itself (same slip as C09-1, found independently)",
 "C10-8": "a point inside a derive-generated tuple struct validated through Vec/array batch_check or an explicit check(): derived Valid empty for tuple structs",
 "C14-6": "parallel batch inversion on a pool that is not a power of two with a short input, two chunks landing on the same un-stolen split leaf (scratch buffer reused across chunks): schedule dependent",
 "C14-7": "radix-2 domain 2^10..2^13 on a pool that is not a power of two and <= n/256 (roots table truncated by compute_powers)",
 "C14-8": "mixed-radix domain 3^j*2^k on a pool with 2^(k+1) <= 2^floor(log2 T) and T < size (best_fft guard compares lengths): parallel build panics",
 "C18-6": "a byte >= 2 at a boolean / Option-tag position inside Vec<bool>, [bool;N], Vec<Option<T>> (elements are read unchecked) or through an unchecked entry point",
 "C18-7": "a VecDeque whose ring buffer has wrapped (push_front after push_back, FIFO use): only the first slice is serialized",
 "C18-8": "GeneralEvaluationDomain holding a MixedRadix domain (field with a small subgroup, size beyond the 2-adic part): decoded as Radix2",
 "C05-9": "make_digits last-limb guard: window straddling the last limb boundary loses its high bits (4-limb fields: n = 32, 129..256, > 1024)",
 "C05-10": "msm_unchecked with strictly more bases than scalars: panics instead of truncating",
 "C05-11": "parallel build only: digit loop over par_chunks_exact drops the remainder (n not a multiple of n/threads)",
 "C09-9": "a curve point inside a mode-pinning wrapper asked for its size in the other mode (same slip as C18-1, found independently)",
 "C09-10": "buffer_byte_size = bits/8+1: moduli whose bit length (or bit length + flag bits) is a multiple of 8 get an extra ignored byte: 256 encodings per element",
 "C09-11": "short Weierstrass curve with a point of order two (y = 0), compressed, unchecked: early Legendre reject treats 0 as non-residue",
 "C10-9": "a batch (Vec/array) of PairingOutput with at least two non-members whose product lies in the target group (f and f^-1): one aggregate check on the product",
 "C10-10": "an invalid point stored as a BTreeMap value where the map is itself an element of a batch-validated container",
 "C10-11": "capacity cap overflow (as C18-2, found independently)",
 "C14-9": "parallel MSM early path over par_chunks_exact(size/threads): size/threads >= 128 and a remainder (257 pairs on 2 threads)",
 "C14-10": "parallel BLS12 multi_miller_loop with chunk size from the pool: every pair contains an identity or the input is empty: par_chunks_mut(0) panics",
 "C14-11": "parallel batch_inversion_and_mul fast path for len <= threads drops coeff",
 "C18-9": "[T;N] with N >= 2 and value-dependent element sizes: serialized_size = N * first element",
 "C18-10": "a String longer than 2^20 bytes: the reservation cap misused as the read length",
 "C18-11": "BigUint payload written with write instead of write_all: short writes, Interrupted",
 "C05-12": "plain-bucket MSM (verif-hooks) with at least one scalar equal to 1: accumulator of unit-scalar bases shadowed",
 "C05-13": "msm_chunks with a scalar stream longer than 2^20 whose later chunk has bases different from the first chunk's",
 "C05-14": "msm_chunks with an empty scalar stream: (len-1)/step+1 underflows",
 "C09-12": "twisted Edwards PROJECTIVE value equal to the order-two point (0,-1): normalisation tests x == 0 and writes the identity",
 "C09-13": "cubic extension decoded with non-empty flags (coordinates of points over Fp3): a flag-shaped bit in the top byte of c0 or c1 is accepted",
 "C09-14": "twisted Edwards curve with a != -1 (Bandersnatch, ed_on_bn254, curve25519), compressed, x != 0: decompression formula specialised to a = -1",
 "C10-12": "Cow-wrapped points inside a batch-validated container: batch_check filtered to Cow::Borrowed",
 "C10-13": "ark-bls12-381 G2 compressed reader uses read: truncated input accepted, short reads rejected",
 "C10-14": "Vec/array of twisted Edwards PROJECTIVE points with the invalid element at index 0: batch_check's emptiness probe consumes it",
 "C14-12": "parallel_fft coefficient index uses a shift: mixed-radix sizes with a factor 3 on pools 2 <= 2^floor(log2 p) < 2^b",
 "C14-13": "parallel digit computation skips blocks of all-zero scalars: later digits paired with the wrong bases",
 "C14-14": "parallel batch_check returns Ok when size_hint().0 == 0: nested containers (flat_map/filter iterators) never checked",
 "C18-12": "Option::batch_check stops at the first None (as C10-4, found independently)",
 "C18-13": "BTreeMap input with a repeated key: assert_eq on the length panics",
 "C18-14": "String with a non-ASCII character: length prefix counts characters",
 "C05-15": "checked msm of a group using the trait's default body (PairingOutput) with fewer bases than scalars: Err carries the longer length",
 "C05-16": "msm_chunks with a stream length that is a positive exact multiple of 2^20: last chunk dropped",
 "C05-17": "digit count num_bits/c+1 at two sites: 256-bit scalar field with 257..1024 pairs (c = 8 divides 256): index out of bounds",
 "C09-15": "a mode-pinning wrapper around a curve point deserialized in the mode opposite to its pinned one: decodes with the caller's mode",
 "C09-16": "twisted Edwards curve over a base field whose bit length is a multiple of 8, uncompressed: size counts a flag byte that is never written (no shipped curve)",
 "C09-17": "from_random_bytes_with_flags on a field whose flags live in the extra byte (256-bit, 64-bit, 255+2): flags read from the wrong byte",
 "C10-15": "twisted Edwards compressed encoding with y = +-sqrt(a/d) (Bandersnatch only: 4 byte strings): division by zero panics",
 "C10-16": "VecDeque decoder reserves `len` elements from the untrusted prefix again (bypasses the cap)",
 "C10-17": "UncompressedChecked<T> pinned to Validate::No: invalid uncompressed encodings accepted through that wrapper",
 "C14-15": "parallel sparse evaluate_over_domain: one run-start per thread zipped with par_chunks_mut: pools not dividing the size with size >= 16*threads leave a tail of zeros",
 "C14-16": "parallel Horner without the chunk floor: 16 < #coefficients < pool size: par_chunks(0) panics",
 "C14-17": "parallel batch inversion of the empty slice: par_chunks_mut(0) panics",
 "C18-15": "String payload read with raw read in blocks: ErrorKind::Interrupted inside the payload surfaces as an error",
 "C18-16": "Option tag decoded as u8 != 0: bytes 2..255 accepted as Some",
 "C18-17": "serialize_to_vec! writes its LAST argument compressed and the others uncompressed",
}
conf = {}
for f in ['/verif/seeded/confirmations.txt']:
    if os.path.exists(f):
        for l in open(f):
            m = re.match(r'(C\d+-\d+): (.*)', l.strip())
            if m: conf[m.group(1)] = m.group(2)
for d in sorted(glob.glob('/verif/seeded/C*')):
    sid = os.path.basename(d)
    notes = open(d+'/notes.md').read()
    title = notes.splitlines()[0].lstrip('# ').strip()
    cr = json.load(open(d+'/check_result.json')) if os.path.exists(d+'/check_result.json') else {}
    caught = {p: (r['exit'] == 1 and r['VIOLATION_lines'] > 0) for p, r in cr.items()}
    meta = {
        "id": sid, "property": sid.split('-')[0], "title": title,
        "written_by": "independent sub-agent given only the property text and its own scratch worktree (round %d)" % (1 if int(sid.split('-')[1]) <= 2 else 2 if int(sid.split('-')[1]) <= 5 else 3 if int(sid.split('-')[1]) <= 8 else 4 if int(sid.split('-')[1]) <= 11 else 5 if int(sid.split('-')[1]) <= 14 else 6),
        "needs_to_manifest": NEEDS.get(sid, ""),
        "files": ["patch.diff", "demo.rs", "notes.md"] + (["demo_crate/"] if os.path.isdir(d+'/demo_crate') else []) + (["example_replay.json"] if os.path.exists(d+'/example_replay.json') else []),
        "my_confirmation": conf.get(sid, "pending"),
        "what_i_ran": "scratch worktree /tmp/wt-verify: demo on the clean tree (must pass), demo with patch.diff applied (must fail), `cargo test --workspace --no-fail-fast --offline` with the patch and without the demo (must pass); then `git -C /repo apply patch.diff`, `./check <property>` (quick tier), `git -C /repo checkout -- .`",
        "check_result": cr, "caught_by_quick_check": caught,
    }
    json.dump(meta, open(d+'/meta.json', 'w'), indent=1)
    print(sid, caught, meta["my_confirmation"][:60])
