#!/usr/bin/env python3
"""Assemble seeded/<id>/meta.json from the sub-agent's notes, my own confirmation
runs (/tmp/verify-seeded*.log lines, copied into seeded/confirmations.txt) and
the check results."""
import json, os, re, glob
NEEDS = {
 "C05-1": "secp256k1-like 256-bit order, 257..1024 terms (window 8) and a scalar whose top window is all ones with a carry (r-1): the unrecentred last signed digit equals 2^c and indexes past a bucket vector shortened to 2^c-1",
 "C05-2": "HashMapPippenger where an entry's accumulated scalar is exactly zero at finalize (add(P,0), or add(P,k) then add(P,r-k)) with no flush in between: scalars filtered, bases not",
 "C09-1": "the byte string that encodes exactly the modulus p (per coordinate), any mode: accepted and decoded as 0",
 "C09-2": "a field with 0 < spare bits < flag bits (255-bit base field with the 2-bit SWFlags: pallas, vesta, bandersnatch/jubjub SW forms): size advertised 32, 33 written, reader takes flags from the wrong byte",
 "C10-1": "twisted Edwards curve, Validate::Yes, exactly the order-2 point (0,-1)",
 "C10-2": "short Weierstrass, compressed, infinity flag set with non-zero in-range x: Option::unwrap on None",
 "C14-1": "parallel build, coset FFT/IFFT, len/threads > 1024 and chunk size not dividing len (n=4096 on 3 threads)",
 "C14-2": "parallel build, radix-2 FFT with n >= 8192 and a pool of >= 3 threads (intra-chunk parallel butterfly)",
 "C18-1": "a mode-pinning wrapper serialized through CanonicalSerialize in the mode opposite to its pinned one, around a type whose size depends on the mode",
 "C18-2": "Vec/VecDeque of elements >= 2 bytes with a length prefix such that len*size_of::<T>() overflows usize",
 "C05-3": "msm_chunks with a base stream strictly longer than the scalar stream (stream alignment offset)",
 "C05-4": "ChunkedPippenger whose total number of adds is a non-zero exact multiple of the buffer size: finalize returns the identity",
 "C05-5": "checked msm on a twisted Edwards group with strictly more bases than scalars: Ok(truncated sum) instead of Err(min)",
 "C09-3": "a quadratic-extension element serialized with SWFlags/TEFlags over a base prime with fewer spare bits than the flags need (256-bit or 255-bit): size counts the flag byte for both coefficients",
 "C09-4": "ark-bls12-381 G2, compressed, a curve point with y.c1 == 0 whose y.c0 is the larger root (outside the subgroup: unchecked modes): sign bit wrong, decodes to the negation",
 "C09-5": "ark-bls12-381 G1, compressed, a reader that answers the 48-byte request in pieces (short read): valid bytes rejected",
 "C10-3": "compressed point over a quadratic-extension base field with x^3+b in the prime subfield and a non-residue there (constructed input, probability ~2^-382 at random): panic in QuadExtField::sqrt",
 "C10-4": "Vec/array of Option<point> validated as a batch where a None precedes an invalid Some(point)",
 "C10-5": "cofactor-one short Weierstrass curve, uncompressed, Validate::Yes, (x,y) off the curve",
 "C14-3": "parallel build, DensePolynomial::evaluate with more than one chunk and a chunk length max(len/threads,16) that is not a power of two (48 coefficients on 2 threads)",
 "C14-4": "parallel build, mixed-radix domain of size 3*2^a or 9*2^a on a pool of >= 2 threads where best_fft takes the coset-split path",
 "C14-5": "parallel build, batch validity check with len >= 2*threads, len % (len/threads) != 0 and an invalid element in the unchecked tail",
 "C18-3": "derive(CanonicalSerialize) on a struct with a tuple-in-a-tuple field of >= 2 inner elements: wrong field path",
 "C18-4": "BigUint equal to zero: to_bytes_le gives one byte, size computed from bits() reports none",
 "C18-5": "isize read with a reader that returns short reads, or input truncated inside the 8 bytes",
}
conf = {}
for f in ['/verif/seeded/confirmations.txt']:
    if os.path.exists(f):
        for l in open(f):
            m = re.match(r'(C\d+-\d+): (.*)', l.strip())
            if m: conf[m.group(1)] = m.group(2)
for d in sorted(glob.glob('/verif/seeded/C*')):
    sid = os.path.basename(d)
    notes = open(d+'/notes.md').read()
    title = notes.splitlines()[0].lstrip('# ').strip()
    cr = json.load(open(d+'/check_result.json')) if os.path.exists(d+'/check_result.json') else {}
    caught = {p: (r['exit'] == 1 and r['VIOLATION_lines'] > 0) for p, r in cr.items()}
    meta = {
        "id": sid, "property": sid.split('-')[0], "title": title,
        "written_by": "independent sub-agent given only the property text and its own scratch worktree (round %d)" % (1 if int(sid.split('-')[1]) <= 2 else 2),
        "needs_to_manifest": NEEDS.get(sid, ""),
        "files": ["patch.diff", "demo.rs", "notes.md"] + (["demo_crate/"] if os.path.isdir(d+'/demo_crate') else []) + (["example_replay.json"] if os.path.exists(d+'/example_replay.json') else []),
        "my_confirmation": conf.get(sid, "pending"),
        "what_i_ran": "scratch worktree /tmp/wt-verify: demo on the clean tree (must pass), demo with patch.diff applied (must fail), `cargo test --workspace --no-fail-fast --offline` with the patch and without the demo (must pass); then `git -C /repo apply patch.diff`, `./check <property>` (quick tier), `git -C /repo checkout -- .`",
        "check_result": cr, "caught_by_quick_check": caught,
    }
    json.dump(meta, open(d+'/meta.json', 'w'), indent=1)
    print(sid, caught, meta["my_confirmation"][:60])
