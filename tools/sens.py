#!/usr/bin/env python3
"""Sensitivity probes: apply a deliberate property-breaking edit to /repo,
run the quick check of the property it should break, record the verdict, and
revert.  Usage: tools/sens.py [id ...]   (no ids = all).  Never commits to /repo.
Requires a clean /repo working tree."""
import subprocess, sys, json, os, time

M = [
 # id, property, file, old, new
 ("uint_read_not_exact", "C18", "serialize/src/impls.rs", "                reader.read_exact(&mut bytes)?;\n                Ok(<$type>::from_le_bytes(bytes))", "                let _ = reader.read(&mut bytes)?;\n                Ok(<$type>::from_le_bytes(bytes))"),
 ("serbuffer_write_not_all", "C09", "ff/src/const_helpers.rs", "        other.write_all(&self.buffers[N - 1][..num_last_limb_bytes])?;", "        let _ = other.write(&self.buffers[N - 1][..num_last_limb_bytes])?;"),
 ("ignore_first_limb_write_error", "C09", "ff/src/const_helpers.rs", "            other.write_all(&self.buffers[i])?;", "            let _ = other.write_all(&self.buffers[i]);"),
 ("drop_geq_modulus", "C09", "ff/src/fields/models/fp/montgomery_backend.rs", "        } else if r.is_geq_modulus() {\n            None", "        } else if false {\n            None"),
 ("swflags_accept_both", "C10", "ec/src/models/short_weierstrass/serialization_flags.rs", "            (true, true) => None,", "            (true, true) => Some(Self::YIsNegative),"),
 ("array_skip_batch_check", "C10", "serialize/src/impls.rs", "        if validate == Validate::Yes {\n            T::batch_check(array.iter())?\n        }\n        Ok(array.into_inner().ok().unwrap())", "        let _ = validate;\n        Ok(array.into_inner().ok().unwrap())"),
 ("bls_g1_subgroup_true", "C10", "curves/bls12_381/src/curves/g1.rs", "        minus_x_squared_times_p.eq(&endomorphism_p)", "        let _ = (minus_x_squared_times_p, endomorphism_p);\n        true"),
 ("te_skip_subgroup", "C10", "ec/src/models/twisted_edwards/affine.rs", "        if self.is_on_curve() && self.is_in_correct_subgroup_assuming_on_curve() {", "        if self.is_on_curve() {"),
 ("option_validate_no", "C10", "serialize/src/impls.rs", "            .then(|| T::deserialize_with_mode(&mut reader, compress, validate))", "            .then(|| T::deserialize_with_mode(&mut reader, compress, Validate::No))"),
 ("string_size_off", "C18", "serialize/src/impls.rs", "    fn serialized_size(&self, compress: Compress) -> usize {\n        self.as_bytes().serialized_size(compress)", "    fn serialized_size(&self, compress: Compress) -> usize {\n        self.as_bytes().serialized_size(compress) + (self.len() > 300) as usize"),
 ("bool_accept_any", "C18", "serialize/src/impls.rs", "            _ => Err(SerializationError::InvalidData),\n        }\n    }\n}\n\nmacro_rules! impl_uint", "            _ => Ok(true),\n        }\n    }\n}\n\nmacro_rules! impl_uint"),
 ("horner_chunk_offset", "C14", "poly/src/polynomial/univariate/dense.rs", "point.pow([(i * num_elem_per_thread) as u64])", "point.pow([(i * (num_elem_per_thread + 1)) as u64])"),
 ("distribute_powers_offset", "C14", "poly/src/domain/mod.rs", "                let offset = c * g.pow([(i * num_elem_per_thread) as u64]);", "                let offset = c * g.pow([(i * (num_elem_per_thread + 1)) as u64]);"),
 ("batch_inv_no_floor", "C14", "ff/src/fields/mod.rs", "    let num_elem_per_thread = max(num_elems / num_cpus_available, min_elements_per_thread);", "    let num_elem_per_thread = num_elems / num_cpus_available + (min_elements_per_thread - 1);"),
 ("parallel_fft_interleave", "C14", "poly/src/domain/utils.rs", "        .for_each(|(i, a)| *a = tmp[i % num_cosets][i / num_cosets]);", "        .for_each(|(i, a)| *a = tmp[i % num_cosets][(i / num_cosets + (num_cosets == 8) as usize) % coset_size]);"),
 ("chunked_no_clear_bases", "C05", "ec/src/scalar_mul/variable_base/stream_pippenger.rs", "            self.scalars_buffer.clear();\n            self.bases_buffer.clear();", "            self.scalars_buffer.clear();"),
 ("hashmap_overwrite", "C05", "ec/src/scalar_mul/variable_base/stream_pippenger.rs", "        *entry += *scalar.borrow();", "        *entry = *scalar.borrow();"),
 ("msm_mismatch_max", "C05", "ec/src/models/short_weierstrass/mod.rs", "            .ok_or_else(|| bases.len().min(scalars.len()))", "            .ok_or_else(|| bases.len().max(scalars.len()))"),
 ("finalize_drops_tail", "C05", "ec/src/scalar_mul/variable_base/stream_pippenger.rs", "        if !self.scalars_buffer.is_empty() {", "        if self.scalars_buffer.len() > 1 {"),
 ("wnaf_last_digit_carry", "C05", "ec/src/scalar_mul/variable_base/mod.rs", "        if i == digits_count - 1 {\n            digit += (carry << w) as i64;\n        }", "        if i == digits_count - 1 && w != 5 {\n            digit += (carry << w) as i64;\n        }"),
]

def sh(cmd, **kw):
    return subprocess.run(cmd, shell=True, capture_output=True, text=True, **kw)

def main():
    ids = sys.argv[1:]
    st = sh("git -C /repo status --porcelain").stdout.strip()
    if st:
        print("refusing: /repo working tree not clean:\n" + st); sys.exit(2)
    results = {}
    for (mid, prop, f, old, new) in M:
        if ids and mid not in ids: continue
        if old is None:
            print(f"{mid}: (no textual recipe; skipped)"); continue
        path = os.path.join("/repo", f)
        src = open(path).read()
        if src.count(old) < 1:
            print(f"{mid}: pattern not found in {f}"); results[mid] = "pattern-not-found"; continue
        open(path, "w").write(src.replace(old, new, 1))
        t0 = time.time()
        try:
            env = dict(os.environ); env.setdefault("VERIF_RUNS", os.environ.get("SENS_RUNS", "30000" if prop in ("C09","C10","C18") else "600"))
            r = subprocess.run(["/verif/check", prop], capture_output=True, text=True, env=env, cwd="/verif")
        finally:
            sh("git -C /repo checkout -- .")
        viol = [l for l in r.stdout.splitlines() if l.startswith("violation:")]
        results[mid] = {"property": prop, "exit": r.returncode, "first": viol[0][:300] if viol else r.stdout[-300:], "wall_s": round(time.time()-t0,1)}
        print(f"{mid}: property={prop} exit={r.returncode} wall={results[mid]['wall_s']}s  {results[mid]['first'][:200]}")
        sh("rm -rf /verif/replays")
    json.dump(results, open("/verif/tools/sens_results.json", "w"), indent=1)

main()
